//! E4 - exhaustive interleavings (loom) of real handle clones on different threads (C11).
//!
//! Each thread performs the *first poll* of one or two identifier-consuming operations on its own
//! clone of the real `ContextHandle` (that poll allocates the identifiers with `fetch_add` on the two
//! shared counters - loom's atomics under `--cfg poster_verif_loom` - and queues the request).
//! After the join the real `Context` drains the queue onto a mock transport; the bytes are decoded by
//! the independent decoder: every packet identifier must be non-zero and distinct, every
//! subscription identifier distinct, and nothing may panic.
//!
//! futures-channel (std atomics) is in the trusted base; interleavings are explored at the two
//! library atomics, which is where the library itself synchronises.

use futures::io::{AsyncRead, AsyncWrite};
use poster::{Context as MqttContext, PublishOpts, QoS, SubscribeOpts, SubscriptionOpts, UnsubscribeOpts};
use pvcore::refcodec::{decode_client_stream, CPacket, PVal};
use std::future::Future;
use std::pin::Pin;
use std::sync::atomic::{AtomicU64, Ordering};
use std::sync::{Arc, Mutex};
use std::task::{Context, Poll, RawWaker, RawWakerVTable, Waker};

struct NeverRead;
impl AsyncRead for NeverRead {
    fn poll_read(self: Pin<&mut Self>, _: &mut Context<'_>, _: &mut [u8]) -> Poll<std::io::Result<usize>> {
        Poll::Pending
    }
}
#[derive(Clone)]
struct Sink(Arc<Mutex<Vec<u8>>>);
impl AsyncWrite for Sink {
    fn poll_write(self: Pin<&mut Self>, _: &mut Context<'_>, buf: &[u8]) -> Poll<std::io::Result<usize>> {
        self.0.lock().unwrap().extend_from_slice(buf);
        Poll::Ready(Ok(buf.len()))
    }
    fn poll_flush(self: Pin<&mut Self>, _: &mut Context<'_>) -> Poll<std::io::Result<()>> {
        Poll::Ready(Ok(()))
    }
    fn poll_close(self: Pin<&mut Self>, _: &mut Context<'_>) -> Poll<std::io::Result<()>> {
        Poll::Ready(Ok(()))
    }
}

fn noop_waker() -> Waker {
    fn clone(_: *const ()) -> RawWaker {
        RawWaker::new(std::ptr::null(), &VT)
    }
    fn noop(_: *const ()) {}
    static VT: RawWakerVTable = RawWakerVTable::new(clone, noop, noop, noop);
    unsafe { Waker::from_raw(RawWaker::new(std::ptr::null(), &VT)) }
}

fn poll_once<F: Future>(f: F) {
    let w = noop_waker();
    let mut cx = Context::from_waker(&w);
    let mut f = Box::pin(f);
    let _ = f.as_mut().poll(&mut cx);
}

#[derive(Clone, Copy, Debug)]
enum Op {
    Pub1,
    Pub2,
    Sub,
    Unsub,
}

fn first_poll(h: &mut poster::ContextHandle, op: Op) {
    match op {
        Op::Pub1 => poll_once(h.publish(PublishOpts::new().qos(QoS::AtLeastOnce).topic_name("t").payload(b"a"))),
        Op::Pub2 => poll_once(h.publish(PublishOpts::new().qos(QoS::ExactlyOnce).topic_name("t").payload(b"b"))),
        Op::Sub => poll_once(h.subscribe(SubscribeOpts::new().subscription("s", SubscriptionOpts::new()))),
        Op::Unsub => poll_once(h.unsubscribe(UnsubscribeOpts::new().topic_filter("s"))),
    }
}

static SCHEDULES: AtomicU64 = AtomicU64::new(0);

fn model(threads: Vec<Vec<Op>>, start_pid: u16, start_sub: u32, max_preemptions: Option<usize>) -> u64 {
    SCHEDULES.store(0, Ordering::SeqCst);
    let mut b = loom::model::Builder::new();
    b.preemption_bound = max_preemptions;
    let nops: usize = threads.iter().map(|t| t.len()).sum();
    b.check(move || {
        SCHEDULES.fetch_add(1, Ordering::SeqCst);
        let (mut ctx, handle) = MqttContext::<NeverRead, Sink>::new();
        handle.verif_set_ids(start_pid, start_sub);
        let mut joins = vec![];
        for ops in threads.clone() {
            let mut h = handle.clone();
            joins.push(loom::thread::spawn(move || {
                for op in ops {
                    first_poll(&mut h, op);
                }
            }));
        }
        for j in joins {
            j.join().unwrap();
        }
        // drain the queue through the real context
        let out = Sink(Arc::new(Mutex::new(Vec::new())));
        ctx.set_up((NeverRead, out.clone()));
        poll_once(ctx.run());
        let bytes = out.0.lock().unwrap().clone();
        let (pkts, partial) = decode_client_stream(&bytes).expect("client wrote malformed MQTT");
        assert_eq!(partial, 0, "partial packet on the wire");
        assert_eq!(pkts.len(), nops, "every operation must have reached the wire");
        let mut pids = vec![];
        let mut subs = vec![];
        for p in &pkts {
            if let Some(pid) = p.pid() {
                assert!(pid != 0, "packet identifier 0");
                assert!(!pids.contains(&pid), "packet identifier {} assigned twice: {:?}", pid, pkts.iter().map(|p| p.brief()).collect::<Vec<_>>());
                pids.push(pid);
            }
            if let CPacket::Subscribe(s) = p {
                for pr in &s.props {
                    if let (11, PVal::Var(v)) = (pr.id, &pr.val) {
                        assert!(!subs.contains(v), "subscription identifier {} assigned twice", v);
                        subs.push(*v);
                    }
                }
            }
        }
    });
    SCHEDULES.load(Ordering::SeqCst)
}

fn main() {
    let thorough = std::env::args().any(|a| a == "thorough");
    let all = [Op::Pub1, Op::Pub2, Op::Sub, Op::Unsub];
    let mut total = 0u64;
    let mut configs = 0u64;
    let result = std::panic::catch_unwind(|| {
        let mut total = 0u64;
        let mut configs = 0u64;
        for (pid0, sub0) in [(1u16, 1u32), (65534, 268_435_454)] {
            // 2 threads x 2 operations: every pair of kinds per thread (quick: a representative subset)
            let pairs: Vec<[Op; 2]> = if thorough {
                all.iter().flat_map(|a| all.iter().map(move |b| [*a, *b])).collect()
            } else {
                vec![[Op::Pub1, Op::Sub], [Op::Sub, Op::Pub2], [Op::Unsub, Op::Pub1], [Op::Sub, Op::Sub]]
            };
            for a in &pairs {
                for b in &pairs {
                    total += model(vec![a.to_vec(), b.to_vec()], pid0, sub0, None);
                    configs += 1;
                }
            }
            // 3 threads x 1 operation
            let triples: Vec<[Op; 3]> = if thorough {
                let mut v = vec![];
                for a in all {
                    for b in all {
                        for c in all {
                            v.push([a, b, c]);
                        }
                    }
                }
                v
            } else {
                vec![[Op::Pub1, Op::Sub, Op::Unsub], [Op::Sub, Op::Sub, Op::Pub2], [Op::Pub1, Op::Pub1, Op::Pub1]]
            };
            for t in &triples {
                total += model(t.iter().map(|o| vec![*o]).collect(), pid0, sub0, None);
                configs += 1;
            }
            // 3 threads x 2 operations with a preemption bound
            if thorough {
                total += model(
                    vec![vec![Op::Pub1, Op::Sub], vec![Op::Sub, Op::Pub2], vec![Op::Unsub, Op::Sub]],
                    pid0,
                    sub0,
                    Some(3),
                );
                configs += 1;
            }
        }
        (total, configs)
    });
    match result {
        Ok((t, c)) => {
            total += t;
            configs += c;
            println!("LOOM-OK schedules={} configurations={}", total, configs);
        }
        Err(e) => {
            let msg = e
                .downcast_ref::<String>()
                .cloned()
                .or_else(|| e.downcast_ref::<&str>().map(|s| s.to_string()))
                .unwrap_or_default();
            println!("LOOM-VIOLATION {}", msg.replace('\n', " "));
            std::process::exit(1);
        }
    }
}
