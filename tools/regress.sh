#!/bin/bash
# Detection demonstration: revert each 'fix:' commit of /repo in the working tree (never committed),
# run the quick check(s) of the property it repaired and expect exit 1 with a VIOLATION line.
# usage: tools/regress.sh [sha-prefix ...]      (no args = all)
cd /verif
declare -A MAP=(
 [07595b6]="C08" [16f2077]="C09" [99c00b8]="C10" [24a77d0]="C11 C10" [ccc9172]="C07"
 [bea700b]="C01 C13" [caaaab3]="C15" [edc01e8]="C13" [8c4da29]="C02 C13" [6f67584]="C03"
 [0aaf55e]="C03 C16 C04" [3fb1ec3]="C04" [68fff40]="C17" [9d866c7]="C17" [87a22c8]="C11"
 [5b611b1]="C01" [829b70f]="C01" [3c62e99]="C01" [566328c]="C02" [7dbcd8f]="C04" [a5ce105]="C04"
)
ORDER="07595b6 16f2077 99c00b8 24a77d0 ccc9172 bea700b caaaab3 edc01e8 8c4da29 6f67584 0aaf55e 3fb1ec3 68fff40 9d866c7 87a22c8 5b611b1 829b70f 3c62e99 566328c 7dbcd8f a5ce105"
[ $# -gt 0 ] && ORDER="$*"
if [ -n "$(git -C /repo status --porcelain --untracked-files=no)" ]; then echo "/repo is dirty"; exit 2; fi
mkdir -p /verif/.build/regress
for sha in $ORDER; do
  props="${MAP[$sha]}"
  subj=$(git -C /repo log -1 --format=%s $sha)
  if ! git -C /repo diff $sha^ $sha | git -C /repo apply -R --3way 2>/verif/.build/regress/$sha.apply.log; then
     echo "SKIP   $sha (cannot revert cleanly) $subj"; git -C /repo checkout -- . ; git -C /repo reset -q; continue
  fi
  git -C /repo reset -q
  # the repository's own tests must still pass with the defect back in
  if ( cd /repo && cargo test --offline >/verif/.build/regress/$sha.tests.log 2>&1 ); then tests=pass; else tests=FAIL; fi
  for p in $props; do
     ./check $p --tier quick >/verif/.build/regress/$sha.$p.log 2>&1; code=$?
     rule=$(grep -m1 "rule=" /verif/.build/regress/$sha.$p.log | sed 's/^ *//')
     if [ $code -eq 1 ]; then echo "CAUGHT $sha $p tests=$tests  $rule   # $subj";
     else echo "MISSED $sha $p (exit $code) tests=$tests   # $subj"; fi
  done
  git -C /repo checkout -- .
done
