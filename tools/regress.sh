#!/bin/bash
# Detection demonstration: revert each 'fix:' commit of /repo in the working tree (never committed),
# run the quick check(s) of the property it repaired and expect exit 1 with a VIOLATION line.
# usage: tools/regress.sh [sha-prefix ...]      (no args = all)
V="$(cd "$(dirname "$0")/.." && pwd)"; REPO="${REPO:-/repo}"; cd "$V"
declare -A MAP=(
 [07595b6]="C08" [16f2077]="C09" [99c00b8]="C10" [24a77d0]="C11 C10" [ccc9172]="C07"
 [bea700b]="C01 C13" [caaaab3]="C15" [edc01e8]="C13" [8c4da29]="C02 C13" [6f67584]="C03"
 [0aaf55e]="C03 C16 C04" [3fb1ec3]="C04" [68fff40]="C17" [9d866c7]="C17" [87a22c8]="C11"
 [5b611b1]="C01" [829b70f]="C01" [3c62e99]="C01" [566328c]="C02" [7dbcd8f]="C04" [a5ce105]="C04"
 [0ab05d5]="C12"
)
ORDER="07595b6 16f2077 99c00b8 24a77d0 ccc9172 bea700b caaaab3 edc01e8 8c4da29 6f67584 0aaf55e 3fb1ec3 68fff40 9d866c7 87a22c8 5b611b1 829b70f 3c62e99 566328c 7dbcd8f a5ce105 0ab05d5"
[ $# -gt 0 ] && ORDER="$*"
if [ -n "$(git -C "$REPO" status --porcelain --untracked-files=no)" ]; then echo "$REPO is dirty"; exit 2; fi
mkdir -p $V/.build/regress
for sha in $ORDER; do
  props="${MAP[$sha]}"
  subj=$(git -C "$REPO" log -1 --format=%s $sha)
  if ! git -C "$REPO" diff $sha^ $sha | git -C "$REPO" apply -R --3way 2>$V/.build/regress/$sha.apply.log; then
     echo "SKIP   $sha (cannot revert cleanly) $subj"; git -C "$REPO" checkout -- . ; git -C "$REPO" reset -q; continue
  fi
  git -C "$REPO" reset -q
  # the repository's own tests must still pass with the defect back in
  if ( cd "$REPO" && cargo test --offline >$V/.build/regress/$sha.tests.log 2>&1 ); then tests=pass; else tests=FAIL; fi
  for p in $props; do
     ./check $p --tier quick >$V/.build/regress/$sha.$p.log 2>&1; code=$?
     rule=$(grep -m1 "rule=" $V/.build/regress/$sha.$p.log | sed 's/^ *//')
     if [ $code -eq 1 ]; then echo "CAUGHT $sha $p tests=$tests  $rule   # $subj";
     else echo "MISSED $sha $p (exit $code) tests=$tests   # $subj"; fi
  done
  git -C "$REPO" checkout -- .
done
