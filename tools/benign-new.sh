#!/bin/bash
# False-alarm test of NEW parts only: apply every property-preserving change in turn and run, for every
# check, only the parts whose "<scenario> <params>" contains one of the '|'-separated alternatives
# (PV_ONLY_PART - a debugging aid the registered commands never use). Expects exit 0 everywhere.
# usage: tools/benign-new.sh '<alt1|alt2|...>' [benign dirs...]        (REPO=<scratch>/repo)
V="$(cd "$(dirname "$0")/.." && pwd)"
REPO="${REPO:-/repo}"; filter=$1; shift
dirs="$@"; [ -z "$dirs" ] && dirs=$(ls -d $V/benign/*/)
cd "$V"
if [ -n "$(git -C "$REPO" status --porcelain --untracked-files=no)" ]; then echo "$REPO is dirty"; exit 2; fi
mkdir -p .build/benign
for d in $dirs; do
  name=$(basename $d)
  git -C "$REPO" apply "$d/patch.diff" || { echo "STALE $name"; continue; }
  res=""
  for p in C01 C02 C03 C04 C05 C06 C07 C08 C09 C10 C11 C12 C13 C14 C15 C16 C17; do
    PV_ONLY_PART="$filter" ./check $p --tier quick > .build/benign/new-$name-$p.log 2>&1; code=$?
    exp="$d/expected_alarms.txt"
    if [ $code -ne 0 ] && [ -f "$exp" ] && grep -q "^$p " "$exp"; then res="$res $p:expected"
    elif [ $code -ne 0 ]; then echo "ALARM $name $p exit=$code $(grep -m1 -E 'rule=|MACHINERY' .build/benign/new-$name-$p.log | sed 's/^ *//' | cut -c1-200)"; res="$res $p:$code"
    fi
  done
  git -C "$REPO" checkout -- . ; git -C "$REPO" clean -fdq src
  echo "BENIGN-NEW $name ${res:-all 0}"
done
