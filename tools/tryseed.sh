#!/bin/bash
# Run quick (or $TIER) checks of the CURRENT /verif tree against one kept seed in a scratch pair
# (tools/scratch.sh make <dir> first); /repo is not touched.
# usage: tools/tryseed.sh <scratch dir> <seed id> <check ids...>
V="$(cd "$(dirname "$0")/.." && pwd)"
d=$1; id=$2; shift 2
"$V/tools/scratch.sh" sync "$d"
git -C "$d/repo" checkout -q -- . ; git -C "$d/repo" clean -fdq src ; git -C "$d/repo" apply "$V/seeded/$id/patch.diff" || { echo "patch does not apply"; exit 2; }
for p in "$@"; do
  ( cd "$d/verif" && ./check $p --tier ${TIER:-quick} > "$d/try-$id-$p.log" 2>&1 ); code=$?
  echo "$id: check $p exit=$code $(grep -m1 'rule=' "$d/try-$id-$p.log" | sed 's/^ *//' | cut -c1-200)"
done
git -C "$d/repo" checkout -q -- . ; git -C "$d/repo" clean -fdq src
