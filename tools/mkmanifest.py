#!/usr/bin/env python3
"""Regenerates /verif/MANIFEST.json from the table below (kept valid at all times)."""
import json, subprocess, os
HERE = os.path.dirname(os.path.dirname(os.path.abspath(__file__)))
props = [json.loads(l) for l in open(os.path.join(HERE, "properties.jsonl"))]
ids = [p["id"] for p in props]

E2 = "stateless deviation-bounded exhaustive exploration of the real client (explicit event sequences, strict-waker executor) against a reference model"
E1 = "bounded-exhaustive enumeration of input shapes pushed through the public API of the real client over a mock transport, compared with an independent reference codec"
E3 = "exhaustive enumeration of read-chunk compositions / fault positions of a byte stream against the real framing layer, reference framing as oracle"
ASSUME = "Bounds as recorded in the evidence file; conformant broker unless stated; futures-channel/futures-util are in the trusted base; the select! shuffle is neutralised by the gating rule (DESIGN 3.3); the wall clock is not behind a seam."
def mc(text, design, technique=E2, level="model_checking", note=ASSUME):
    return dict(level=level, design=design, text=text, note=note, technique=technique)
CHECKS = {
 "C01": mc("Every presence subset / boundary value / length-field sweep of the request options (see evidence rule) is encoded by the library through Context::connect/authorize and ContextHandle::*, the bytes captured on the mock transport are decoded by an independent strict MQTT 5 decoder and compared field by field with the packet the standard prescribes; a five-request session is run under every write script with <= K partial/pending-write deviations.", "DESIGN.md 4/C01", E1, "exploration"),
 "C02": mc("Server packets produced by the reference encoder (all legal property subsets, orders, repetitions, reason codes, short forms, identifier and size boundaries) are delivered to the running client and every value is read back through the public accessors and compared with the encoded value or the standard's default.", "DESIGN.md 4/C02", E1, "exploration"),
 "C03": mc("All compositions of short multi-packet byte streams into reads, and structured cut families for long packets around the 512/1024-byte buffer steps, in two reader modes, on the overflow-checked and the wrapping build; observations must equal the reference framing at every quiescent point, with no unread visible bytes, no early end-of-stream, no zero-length read.", "DESIGN.md 4/C03", E3),
 "C04": mc("All byte strings up to a bound over a boundary alphabet, all two-byte prefixes, every truncation / bit flip / byte substitution / length perturbation / property splice / reason byte of valid exemplars of every packet type, every packet type at every phase, EOF / read error (six io::ErrorKinds, permanent and transient) at every offset and write error / Ok(0) at every write, every bounded continuation of a rich session state followed by one or two packets from a menu of ~110 well-formed expected and unexpected packets, a long trickled packet in a child process; both builds; oracle: no panic / abort, no stall with unread input.", "DESIGN.md 4/C04", E3, "fault_enumeration"),
 "C05": mc("Every sequence of operation starts, conformant acknowledgements (in every order, success and failure, distinguishing content) and delayed/spurious polls up to the stated depth and deviation bound is executed on the real Context/ContextHandle under a strict-waker executor; after every event the completions, their content and the set of still-pending operations must equal the reference model's.", "DESIGN.md 4/C05"),
 "C06": mc("All bounded histories of QoS 0/1/2 publishes with every legal PUBACK/PUBREC/PUBCOMP reason code, interleaved with another operation, with delayed polls between the QoS 2 phases and partial/pending writes as deviations; the decoded wire and the publish() results must equal the model's handshake.", "DESIGN.md 4/C06"),
 "C07": mc("All bounded interleavings of subscribe calls, SUBACKs, stream() calls, inbound PUBLISH with absent / registered / unknown / multiple subscription identifiers, stream drops, unsubscribe and lagging streams; every stream must yield exactly the model's items, in order, intact.", "DESIGN.md 4/C07"),
 "C08": mc("All bounded sequences of inbound PUBLISH (QoS x DUP x identifier x subscription-identifier kind) and PUBREL interleaved with a client publish; the wire must carry exactly one acknowledgement of the right type and identifier per packet, in arrival order.", "DESIGN.md 4/C08"),
 "C09": mc("All sequences over QoS 2 deliveries, re-deliveries and releases for two or three identifiers up to the stated depth (one or two subscribed streams, bare CONNACK and CONNACK with small Receive Maximum / Maximum Packet Size, the client's own QoS 2 publishes interleaved, across a reconnect, every identifier 1..=n at once); the stream must yield each distinct message exactly once while every PUBLISH/PUBREL is answered.", "DESIGN.md 4/C09"),
 "C10": mc("Receive Maximum 1,2,3: all bounded histories of publishes and acknowledgements (success / failing) with scheduling deviations; Receive Maximum 65535 across a session resume; a QoS 2 publish abandoned before its PUBREC; requests made before connect(); operations on one long-lived handle; Receive Maximum 65535 / absent / 300: deterministic fill-refuse-drain-refill runs; accept/refuse decisions and wire must equal the model's quota.", "DESIGN.md 4/C10"),
 "C11": mc("Twelve honest 70000-operation runs across the wrap, all bounded histories from counters preset next to the wrap (hook, validated differentially against an honest run), on real handle clones (fresh clones, one long-lived handle used repeatedly, clones of it; locally refused requests in the history); every identifier on the wire is non-zero and differs from all outstanding ones, subscription identifiers are never reused, nothing panics. Thread interleavings at the two atomics: loom harness (see notes).", "DESIGN.md 4/C11"),
 "C12": mc("Every request kind x size range x M in {L-1, L, L+1, 1, 2^32-1, absent} x Receive Maximum {1, absent}, L computed by the reference encoder; one Context connected twice with different limits (also with a QoS 2 handshake continuing on the second connection), requests made before the connection that carries them; refusal without a byte written and without leaked quota / registration, or the whole packet written.", "DESIGN.md 4/C12", E1, "exploration"),
 "C13": mc("connect()/authorize(): every CONNACK reason x property sets, AUTH exchange, EOF at every offset, read/write errors; run(): every terminating cause injected at every point of every bounded history, flat sweeps over all 29 DISCONNECT reasons; return values must match the cause and run() must otherwise stay pending; nothing is written after the user's DISCONNECT.", "DESIGN.md 4/C13"),
 "C14": mc("The Context is dropped at every point of every bounded history (operations unpolled, awaiting acknowledgement, between QoS 2 phases, acknowledged but unpolled; streams with buffered items), then more operations are started; under the strict-waker executor everything completes with ContextExited / its own result, streams drain and end.", "DESIGN.md 4/C14"),
 "C15": mc("Any pending operation future or stream is dropped at any point of bounded histories with Receive Maximum 1 or 2, followed by the late acknowledgements and further operations; run() stays pending, survivors get their own results, the slot is freed.", "DESIGN.md 4/C15"),
 "C16": mc("Every bounded event script is executed wake-only and replayed with a sweep polling all tasks after every event and with a spurious poll inserted at every position for every task, each under whole-packet / 1-byte reads and accept-all / 1-byte / Pending-first writes, on both builds, also for scripts that end in a transport fault (three io::ErrorKinds, transient errors); every poll gets a fresh waker and only the latest one counts; all per-channel traces must equal the baseline and the model must agree at every quiescent point.", "DESIGN.md 4/C16"),
 "C17": mc("The connection is lost after every prefix of bounded QoS 1/2 histories, the disconnection recorded by the hook, the Context reconnected on a fresh transport for session expiry {0, 1000 s, never} x elapsed {10 s, 100000 s}; the second wire must carry exactly the unfinished PUBLISH (DUP=1) / PUBREL packets in original order or nothing when expired, and the original futures complete / fail.", "DESIGN.md 4/C17"),
}
NA_REASON = "check not built yet (work in progress); bounded exhaustive exploration is applicable, see DESIGN.md"

hooks_commits = subprocess.run(["git","-C","/repo","log","--format=%h %s"],capture_output=True,text=True).stdout.splitlines()
hook_shas = [l.split()[0] for l in hooks_commits if l.split(" ",1)[1].startswith("verif hooks")]

m = {
 "version": 1,
 "setup_cmd": "./check --setup",
 "hooks": {
   "guard": "--cfg poster_verif (harness) and --cfg poster_verif_loom (loom harness)",
   "enable": "RUSTFLAGS-equivalent [build] rustflags = [\"--cfg\", \"poster_verif\"] in /verif/harness/.cargo/config.toml; the harness depends on poster by path = /repo",
   "baseline_off_cmd": "cd /repo && cargo test --workspace --no-fail-fast --offline",
   "source_commits": hook_shas,
   "add_only": True,
 },
 "engines": [
   {"name": "pvloom", "path": "loomharness/", "serves_properties": ["C11"],
    "kind_free_text": "loom::model over real ContextHandle clones on 2-3 threads (identifier counters are loom atomics under --cfg poster_verif_loom); all interleavings at the two library atomics, the queue drained through the real Context and decoded by the reference decoder; run as a part of ./check C11"},
   {"name": "pvcheck", "path": "harness/", "serves_properties": sorted(CHECKS.keys()),
    "kind_free_text": "Rust harness: stateless DFS explorer with deviation bounding (pvcore::explore), independent MQTT 5 reference codec (pvcore::refcodec), mock transport + strict-waker executor around the real poster Context (pvcheck::world), reference client model (pvcheck::model)"},
 ],
 "checks": [],
 "notes": "see DESIGN.md; known findings in known_findings.json (1 open, 21 fixed by fix: commits in /repo); 236 independently seeded property-breaking changes under seeded/ (all caught by the quick tier of their property, DESIGN section 9) and 32 property-preserving refactorings under benign/ (no alarm); ./check replay <file> re-executes a violation; detection demonstrations: tools/mutants.sh (mutants/*.patch), tools/seedall.sh (seeded/*/patch.diff), tools/regress.sh (reverts each fix commit)",
 "not_applicable": [],
}
for i in ids:
    if i in CHECKS:
        c = CHECKS[i]
        m["checks"].append({
          "property_id": i,
          "quick_cmd": f"./check {i} --tier quick",
          "thorough_cmd": f"./check {i} --tier thorough",
          "evidence_file": f"/verif/evidence/{i}.json",
          "replay_cmd_template": "./check replay {path}",
          "engine": "pvcheck",
          "level_claimed": {"category": c["level"], "text": c["text"], "design_ref": c["design"]},
          "level_note": c["note"],
          "technique": c["technique"],
        })
    else:
        m["not_applicable"].append({"property_id": i, "reason": NA_REASON})
json.dump(m, open(os.path.join(HERE, "MANIFEST.json"), "w"), indent=1)
print("checks:", [c["property_id"] for c in m["checks"]])
