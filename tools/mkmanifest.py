#!/usr/bin/env python3
"""Regenerates /verif/MANIFEST.json from the table below (kept valid at all times)."""
import json, subprocess, os
HERE = os.path.dirname(os.path.dirname(os.path.abspath(__file__)))
props = [json.loads(l) for l in open(os.path.join(HERE, "properties.jsonl"))]
ids = [p["id"] for p in props]

E2 = "stateless deviation-bounded exhaustive exploration of the real client (explicit event sequences, strict-waker executor) against a reference model"
CHECKS = {
 "C05": dict(level="model_checking", design="DESIGN.md 4/C05",
   text="Every sequence of operation starts, conformant acknowledgements (in every order, success and failure, distinguishing content) and delayed/spurious polls up to the stated depth and deviation bound is executed on the real Context/ContextHandle under a strict-waker executor; after every event the completions, their content and the set of still-pending operations must equal the reference model's.",
   note="Bounded depth (see evidence bounds); conformant broker; futures-channel trusted; the select! shuffle is neutralised by the gating rule (DESIGN 3.3).",
   technique=E2),
}
NA_REASON = "check not built yet (work in progress); bounded exhaustive exploration is applicable, see DESIGN.md"

hooks_commits = subprocess.run(["git","-C","/repo","log","--format=%h %s"],capture_output=True,text=True).stdout.splitlines()
hook_shas = [l.split()[0] for l in hooks_commits if l.split(" ",1)[1].startswith("verif hooks")]

m = {
 "version": 1,
 "setup_cmd": "./check --setup",
 "hooks": {
   "guard": "--cfg poster_verif",
   "enable": "RUSTFLAGS-equivalent [build] rustflags = [\"--cfg\", \"poster_verif\"] in /verif/harness/.cargo/config.toml; the harness depends on poster by path = /repo",
   "baseline_off_cmd": "cd /repo && cargo test --workspace --no-fail-fast --offline",
   "source_commits": hook_shas,
   "add_only": True,
 },
 "engines": [
   {"name": "pvcheck", "path": "harness/", "serves_properties": sorted(CHECKS.keys()),
    "kind_free_text": "Rust harness: stateless DFS explorer with deviation bounding (pvcore::explore), independent MQTT 5 reference codec (pvcore::refcodec), mock transport + strict-waker executor around the real poster Context (pvcheck::world), reference client model (pvcheck::model)"},
 ],
 "checks": [],
 "notes": "see DESIGN.md; known findings in known_findings.json; ./check replay <file> re-executes a violation",
 "not_applicable": [],
}
for i in ids:
    if i in CHECKS:
        c = CHECKS[i]
        m["checks"].append({
          "property_id": i,
          "quick_cmd": f"./check {i} --tier quick",
          "thorough_cmd": f"./check {i} --tier thorough",
          "evidence_file": f"/verif/evidence/{i}.json",
          "replay_cmd_template": "./check replay {path}",
          "engine": "pvcheck",
          "level_claimed": {"category": c["level"], "text": c["text"], "design_ref": c["design"]},
          "level_note": c["note"],
          "technique": c["technique"],
        })
    else:
        m["not_applicable"].append({"property_id": i, "reason": NA_REASON})
json.dump(m, open(os.path.join(HERE, "MANIFEST.json"), "w"), indent=1)
print("checks:", [c["property_id"] for c in m["checks"]])
