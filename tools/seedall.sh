#!/bin/bash
# Re-run every kept seeded change ($V/seeded/*/patch.diff) against the quick check of the property
V="$(cd "$(dirname "$0")/.." && pwd)"
REPO="${REPO:-/repo}"; mkdir -p "$V/.build"
# it breaks (meta.json: property). Expects exit 1 each time. /repo is restored after each.
cd "$V"
if [ -n "$(git -C "$REPO" status --porcelain --untracked-files=no)" ]; then echo "$REPO is dirty"; exit 2; fi
for d in seeded/${1:-}*/; do
  id=$(basename $d)
  p=$(python3 -c "import json;print(json.load(open('$d/meta.json'))['property'])")
  if ! git -C "$REPO" apply $V/$d/patch.diff 2>/dev/null; then echo "STALE  $id"; continue; fi
  ./check $p --tier quick > .build/seedall-$id.log 2>&1; code=$?
  rule=$(grep -m1 "rule=" .build/seedall-$id.log | sed 's/^ *//' | cut -c1-130)
  if [ $code -eq 1 ]; then echo "CAUGHT $id by $p  $rule"; else echo "MISSED $id by $p (exit $code)"; fi
  git -C "$REPO" checkout -- . ; git -C "$REPO" clean -fdq src
done
