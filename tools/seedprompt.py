#!/usr/bin/env python3
"""Print the prompt given to an independent sub-agent that is asked for a property-breaking change.
usage: seedprompt.py <property id> <worktree> <focus text> [<avoid text>]
The agent gets the text of ONE property and a scratch worktree - nothing from /verif."""
import json, sys
pid, wt, focus = sys.argv[1], sys.argv[2], sys.argv[3]
avoid = sys.argv[4] if len(sys.argv) > 4 else ""
p = next(json.loads(l) for l in open('/verif/properties.jsonl') if json.loads(l)['id'] == pid)
anch = p['anchors']
print(f"""You are helping to evaluate a verification harness for the Rust crate poster-rs (an async MQTT 5 client library). Your job is to play the role of a developer who introduces a subtle REGRESSION.

Your scratch git worktree of the crate is at {wt} . Work ONLY inside that directory (read, edit, build and test there; `cargo` must be run with `--offline`, there is no network). Do NOT read or touch /repo, /verif or any other directory outside {wt} - what you write must be independent of any existing verification machinery.

The property you must break (id {pid}): "{p['title']}"

Statement: {p['statement']}

Quantified over: {p['quantifier']['text']}

Code anchors: files {', '.join(anch['files'])}; mechanisms: {'; '.join(m['name'] + ' (' + m['where'] + ')' for m in anch['mechanism'])}.

TASK. Make ONE realistic change to the library source (under src/, the kind of slip or well-meant refactoring/optimisation a maintainer could plausibly commit - not sabotage, no dead giveaway comments) such that:
 1. the crate still compiles without new warnings being turned into errors, and the EXISTING test suite still passes unchanged: `cargo test --workspace --offline` (93 unit tests + 8 doc tests);
 2. the property above is violated for SOME input / schedule / history - but the violation needs something SPECIFIC to manifest: a particular interleaving or polling order, a fault or drop at a particular point, a multi-step sequence of operations, an unusual-but-legal input value or size, or two cooperating code sites that each look fine alone. A change that ordinary use (the README example, a single publish/subscribe round trip) would expose at once is NOT wanted. The scenario in which the violation shows must lie INSIDE what the property states and quantifies over (see 'Statement' and 'Quantified over'): behaviour the property does not speak about - e.g. what happens after a transport fault, for a property that only ranges over fault-free schedules, or after run() itself was cancelled - does not count;
 3. all other behaviour stays as it was as far as you can manage (break this property, as narrowly as possible).

Focus for this round (choose your change in or near this area, it is where earlier rounds have not looked): {focus}

{('Ideas already used in earlier rounds - do NOT repeat these or close variants of them: ' + avoid) if avoid else ''}

DELIVERABLES, all inside {wt}/OUT/ (create the directory):
 * OUT/patch.diff - `git diff` of your change to src/ only (must apply with `git apply` to a clean checkout of this worktree's HEAD);
 * OUT/seed_demo.rs - a self-contained integration test file (it will be copied to tests/seed_demo.rs; it may use only the crate's public API plus the dev-dependencies already available to the crate: futures, bytes, either, and whatever else Cargo.toml lists - check it) containing one or more #[test] functions that PASS on the unchanged code and FAIL with your change. It should drive the real client through in-memory AsyncRead/AsyncWrite mocks and a hand-rolled poll loop (no runtime crate is available) and assert what the property says. Hooks `Context::verif_mark_disconnected` and `ContextHandle::verif_set_ids` exist only under `--cfg poster_verif`; if your demonstration needs them say so in the notes (RUSTFLAGS="--cfg poster_verif").
 * OUT/notes.md - what you changed, why it breaks the property, exactly what is needed for it to manifest, and what is NOT affected.

Verify everything yourself before finishing: (a) with the change: `cargo test --workspace --offline` passes (with tests/seed_demo.rs temporarily moved away), (b) tests/seed_demo.rs fails with the change, (c) on the unchanged src/ the demo passes - to get the unchanged code do NOT use `git stash` (the stash is shared between sibling worktrees of other people); use `git diff -- src > OUT/patch.diff; git checkout -- src; ...test...; git apply OUT/patch.diff` instead. Leave the worktree with your change applied to src/ and the OUT/ directory complete. Keep the build output inside the worktree (default target dir). In your final answer give a three-line summary: what the change is, what it needs to manifest, and the verification results.""")
