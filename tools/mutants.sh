#!/bin/bash
# Detection demonstration on hand-written property-breaking changes ($V/mutants/*.patch).
# Each patch is applied to /repo's working tree (never committed), the repository's own tests must
# still pass, the quick check of the property named in the file name must exit 1, the tree is restored.
# usage: tools/mutants.sh [pattern]
V="$(cd "$(dirname "$0")/.." && pwd)"; REPO="${REPO:-/repo}"; cd "$V"
if [ -n "$(git -C "$REPO" status --porcelain --untracked-files=no)" ]; then echo "$REPO is dirty"; exit 2; fi
mkdir -p .build/mutants
for f in mutants/${1:-m}*.patch; do
  n=$(basename $f .patch)
  p=$(echo $n | sed -E 's/^m[0-9]+-c([0-9]+)-.*/C\1/')
  if ! git -C "$REPO" apply $V/$f 2>.build/mutants/$n.apply.log; then echo "STALE  $n (patch does not apply)"; continue; fi
  if ( cd "$REPO" && cargo test --offline >$V/.build/mutants/$n.tests.log 2>&1 ); then tests=pass; else tests=FAIL; fi
  ./check $p --tier quick >.build/mutants/$n.log 2>&1; code=$?
  rule=$(grep -m1 "rule=" .build/mutants/$n.log | sed 's/^ *//' | cut -c1-150)
  if [ $code -eq 1 ]; then echo "CAUGHT $n by $p tests=$tests  $rule"; else echo "MISSED $n by $p (exit $code) tests=$tests"; fi
  git -C "$REPO" checkout -- .
done
