#!/bin/bash
# False-alarm test: apply a property-PRESERVING change (patch file) to /repo's working tree, run every
# quick check, expect exit 0 everywhere, restore the tree.
# usage: tools/benign.sh <name> <patch> [check ids...]
V="$(cd "$(dirname "$0")/.." && pwd)"
REPO="${REPO:-/repo}"; mkdir -p "$V/.build"
name=$1; patch=$2; shift 2
checks="$@"; [ -z "$checks" ] && checks="C01 C02 C03 C04 C05 C06 C07 C08 C09 C10 C11 C12 C13 C14 C15 C16 C17"
cd "$V"
if [ -n "$(git -C "$REPO" status --porcelain --untracked-files=no)" ]; then echo "$REPO is dirty"; exit 2; fi
git -C "$REPO" apply "$patch" || { echo "patch does not apply to $REPO"; exit 2; }
mkdir -p .build/benign
res=""
for p in $checks; do
  ./check $p --tier quick > .build/benign/$name-$p.log 2>&1; code=$?
  exp="$(dirname "$patch")/expected_alarms.txt"
  if [ $code -ne 0 ] && [ -f "$exp" ] && grep -q "^$p " "$exp"; then
    echo "EXPECTED-ALARM $name $p exit=$code ($(grep "^$p " "$exp" | cut -d' ' -f2-)) $(grep -m1 -E 'rule=' .build/benign/$name-$p.log | sed 's/^ *//' | cut -c1-160)"
  elif [ $code -ne 0 ]; then
    echo "ALARM $name $p exit=$code $(grep -m1 -E 'rule=|MACHINERY' .build/benign/$name-$p.log | sed 's/^ *//' | cut -c1-200)"
  fi
  res="$res $p:$code"
done
git -C "$REPO" checkout -- . ; git -C "$REPO" clean -fdq src
echo "BENIGN $name $res"
