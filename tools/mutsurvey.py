#!/usr/bin/env python3
"""Mutation survey: a systematic search for holes in the checks (complements the hand-written
mutants and the sub-agents' seeded changes).

Generates small syntactic mutants of the library (relational / arithmetic / boolean operators,
integer literals, deleted statements, swapped queue ends ...) in a SCRATCH copy of the repository,
and for each one runs the quick checks that are anchored in the mutated file, cheapest first, until
one reports a violation.  Survivors are listed for triage: each is either equivalent, outside the 17
properties, killed by the repository's own tests (not a realistic change), or a hole to close.

Nothing here decides a property; it only measures the checks.  /repo itself is never touched:
  --repo   scratch worktree of /repo            (e.g. /tmp/msrepo)
  --verif  scratch worktree of /verif whose harness Cargo.toml files point at --repo
"""
import argparse, json, os, re, subprocess, sys, time

ORDER = {
    "src/io/packet_stream.rs": ["C03", "C16", "C04", "C13", "C01"],
    "src/client/context.rs": ["C05", "C08", "C12", "C10", "C09", "C07", "C13", "C06", "C15", "C14", "C17", "C16", "C04"],
    "src/client/handle.rs": ["C05", "C06", "C11", "C07", "C12", "C14", "C15", "C13", "C01", "C16"],
    "src/client/utils.rs": ["C05", "C07", "C17", "C10", "C04"],
    "src/client/stream.rs": ["C07", "C14", "C16", "C02"],
    "src/client/rsp.rs": ["C02", "C13", "C07"],
    "src/client/error.rs": ["C02", "C13", "C06", "C14"],
    "src/client/opts.rs": ["C01", "C12", "C06"],
    "src/client/message.rs": ["C05"],
}
CODEC = ["C01", "C02", "C04", "C06", "C13", "C03"]

OPS = [
    (r" <= ", " < "), (r" >= ", " > "), (r" < ", " <= "), (r" > ", " >= "),
    (r" == ", " != "), (r" != ", " == "),
    (r" && ", " || "), (r" \|\| ", " && "),
    (r" \+ ", " - "), (r" - ", " + "), (r" \+= ", " -= "), (r" -= ", " += "),
    (r" \|= ", " &= "), (r" << ", " >> "), (r" >> ", " << "), (r" \* ", " + "),
    (r"\btrue\b", "false"), (r"\bfalse\b", "true"),
    (r"\bif !", "if "), (r"\.min\(", ".max("), (r"\.max\(", ".min("),
    (r"\bpop_front\b", "pop_back"), (r"\bpush_back\b", "push_front"),
    (r"\.remove\(pos\)", ".swap_remove_back(pos)"),
    (r"\bsaturating_sub\b", "wrapping_sub"),
    (r"\.is_some\(\)", ".is_none()"), (r"\.is_none\(\)", ".is_some()"),
    (r"\.is_err\(\)", ".is_ok()"), (r"\.is_ok\(\)", ".is_err()"),
    (r"\.is_empty\(\)", ".len() == 1"),
    (r"\bunwrap_or\(0\)", "unwrap_or(1)"),
]
NUM = re.compile(r"(?<![\w.#\[])(0x[0-9a-fA-F]+|\d+)(?![\w.\]])")


def code_lines(text):
    """indices of lines that are code (not comments / attributes / tests)"""
    out = []
    for i, l in enumerate(text):
        s = l.strip()
        if s.startswith("#[cfg(test)]"):
            break
        if not s or s.startswith("//") or s.startswith("#[") or s.startswith("use ") or s.startswith("///"):
            continue
        out.append(i)
    return out


def mutants_of(path, text):
    res = []
    for i in code_lines(text):
        line = text[i]
        code = line.split("//")[0]
        for pat, rep in OPS:
            for m in re.finditer(pat, code):
                new = code[: m.start()] + rep + code[m.end():] + line[len(code):]
                res.append((i, f"{pat.strip()} -> {rep.strip()} @col{m.start()}", new))
        for m in NUM.finditer(code):
            tok = m.group(1)
            try:
                v = int(tok, 16) if tok.startswith("0x") else int(tok)
            except ValueError:
                continue
            nv = v + 1
            rep = hex(nv) if tok.startswith("0x") else str(nv)
            new = code[: m.start()] + rep + code[m.end():] + line[len(code):]
            res.append((i, f"literal {tok} -> {rep} @col{m.start()}", new))
        s = code.strip()
        if (
            s.endswith(";")
            and not re.match(r"(let|return|use|pub|const|static|type|break|continue|fn|impl|mod)\b", s)
            and s.count("(") == s.count(")")
            and s.count("{") == s.count("}")
            and ("(" in s or "=" in s)
            and not s.startswith("}")
        ):
            indent = line[: len(line) - len(line.lstrip())]
            res.append((i, "delete statement", indent + "// mutant: statement deleted\n"))
    return res


def run(cmd, cwd, timeout):
    try:
        p = subprocess.run(cmd, cwd=cwd, stdout=subprocess.PIPE, stderr=subprocess.STDOUT, timeout=timeout, text=True)
        return p.returncode, p.stdout
    except subprocess.TimeoutExpired as e:
        return 124, (e.stdout or "") if isinstance(e.stdout, str) else ""


def main():
    ap = argparse.ArgumentParser()
    ap.add_argument("--repo", required=True)
    ap.add_argument("--verif", required=True)
    ap.add_argument("--out", required=True)
    ap.add_argument("--files", nargs="*")
    ap.add_argument("--shard", default="0/1")
    ap.add_argument("--limit", type=int, default=0)
    ap.add_argument("--list", action="store_true")
    a = ap.parse_args()
    si, sn = [int(x) for x in a.shard.split("/")]
    files = a.files
    if not files:
        files = list(ORDER.keys())
        for d in ("src/codec", "src/core"):
            for f in sorted(os.listdir(os.path.join(a.repo, d))):
                if f.endswith(".rs") and f != "mod.rs":
                    files.append(f"{d}/{f}")
    allm = []
    for f in files:
        text = open(os.path.join(a.repo, f)).read().splitlines(keepends=True)
        for (i, desc, new) in mutants_of(f, text):
            allm.append((f, i, desc, new))
    mine = [m for k, m in enumerate(allm) if k % sn == si]
    if a.limit:
        mine = mine[: a.limit]
    print(f"{len(allm)} mutants in total, {len(mine)} in this shard", flush=True)
    if a.list:
        for f, i, desc, new in mine:
            print(f"{f}:{i+1}: {desc}")
        return
    done = set()
    if os.path.exists(a.out):
        for l in open(a.out):
            r = json.loads(l)
            done.add((r["file"], r["line"], r["desc"]))
    out = open(a.out, "a")
    env_ok = subprocess.run(["git", "-C", a.repo, "status", "--porcelain", "--untracked-files=no"], stdout=subprocess.PIPE, text=True).stdout
    if env_ok.strip():
        print("scratch repo is dirty", file=sys.stderr)
        sys.exit(2)
    for f, i, desc, new in mine:
        if (f, i + 1, desc) in done:
            continue
        path = os.path.join(a.repo, f)
        orig = open(path).read()
        lines = orig.splitlines(keepends=True)
        old = lines[i]
        lines[i] = new if new.endswith("\n") else new + "\n"
        open(path, "w").write("".join(lines))
        rec = {"file": f, "line": i + 1, "desc": desc, "old": old.strip(), "new": new.strip()}
        t0 = time.time()
        try:
            # does it compile at all? (the harness build compiles the library)
            code, outp = run(["cargo", "build", "--offline", "--lib"], a.repo, 600)
            if code != 0:
                rec["result"] = "no-compile"
            else:
                checks = ORDER.get(f, CODEC)
                killed = None
                for c in checks:
                    code, outp = run(["./check", c, "--tier", "quick"], a.verif, 900)
                    if code == 1:
                        m = re.search(r"rule=(\S+)", outp)
                        killed = (c, m.group(1) if m else "?")
                        break
                    if code != 0:
                        killed = (c, f"exit{code}")
                        break
                if killed:
                    rec["result"] = "killed"
                    rec["by"] = killed[0]
                    rec["rule"] = killed[1]
                else:
                    # a realistic change also passes the repository's own tests
                    code, outp = run(["cargo", "test", "--offline", "--lib"], a.repo, 900)
                    rec["result"] = "SURVIVED" if code == 0 else "killed-by-unit-tests"
                    rec["checks_run"] = checks
        finally:
            open(path, "w").write(orig)
        rec["secs"] = round(time.time() - t0, 1)
        out.write(json.dumps(rec) + "\n")
        out.flush()
        print(f"{rec['result']:22s} {f}:{i+1} {desc} {rec.get('by','')} {rec.get('rule','')}", flush=True)


if __name__ == "__main__":
    main()
