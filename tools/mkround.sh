#!/bin/bash
# Prepare a round of independent seeded changes: one scratch worktree of /repo and one prompt per
# property under <dir> (outside /repo and /verif). The prompt (tools/seedprompt.py) contains the text
# of ONE property, a free-choice focus and the list of ideas already used - nothing else from /verif.
# usage: tools/mkround.sh <dir> [property ids...]
V="$(cd "$(dirname "$0")/.." && pwd)"
d=$1; shift
props="$@"; [ -z "$props" ] && props="C01 C02 C03 C04 C05 C06 C07 C08 C09 C10 C11 C12 C13 C14 C15 C16 C17"
mkdir -p "$d"
FOCUS="none prescribed - choose whatever you judge most likely to slip through a careful, systematic test campaign (one that already varies option subsets and boundary values, read/write chunking, big packets and bursts, acknowledgement orders, cancellation points, several connections per Context ended in every way, resumed and expired sessions, requests made before connect(), futures created long before their first poll, several handle clones and long-lived handles, the client's own CONNECT limits, CONNACK property sets, transport faults of several kinds incl. transient ones, spurious polls with fresh wakers, long backlogs, unusual message contents (retain, every property, topic aliases, long topics, multi-byte strings at every byte alignment), write halves that gather vectored writes and fail or stall in flush / close, re-authentication after the CONNACK, sessions resumed twice, one handle object used for many operations, identifier wrap-around with identifier-free traffic in between, packet sizes and cuts at powers of two up to several MiB, MQTT 5 features a client may act on (Retain Handling and Retain Available, Request Problem Information, Message Expiry, Payload Format Indicator, Maximum QoS, wildcard / shared subscription availability, server redirects, re-authentication), QoS 2 identifiers released out of order and reused, inbound and outbound identifiers with equal values, requests made between two connections, bursts of many thousands of packets, hundreds of handshakes re-sent at a resume, real time passing (seconds) at every place where the crate could look at a clock, Display / Debug of every returned value, sliding windows of outstanding operations over dozens of rounds, strings with blanks / line ends / control characters, repeated identical properties, 70 000 unread messages per stream, 65 600 operations after the context is gone, single outbound packets of up to 256 MiB). Good candidates: interactions of THREE things that are each fine alone or in pairs; behaviour that depends on the VALUE of data in an unusual way; rarely used API surface; code paths reached only through a particular sequence of errors; anything where the library keeps a copy of something and the copy can go stale; state that survives from one phase (connect / authorize / run / a second run) into the next"
for p in $props; do
  git -C /repo worktree add -q --detach "$d/$p" HEAD || exit 2
  avoid=$(python3 - "$p" <<'PY'
import json,glob,sys,os
p=sys.argv[1]; out=[]
for m in sorted(glob.glob(f'/verif/seeded/{p}*/meta.json')):
    name=os.path.basename(os.path.dirname(m)).split('-',1)[1].replace('-',' ')
    needs=json.load(open(m)).get('needs','')[:95]
    out.append(f"{name} [{needs}]")
print(' ; '.join(out))
PY
)
  python3 "$V/tools/seedprompt.py" "$p" "$d/$p" "$FOCUS" "$avoid" > "$d/prompt-$p.txt"
done
ls "$d"
