#!/bin/bash
# run every check of a tier, print exit code and wall time
cd /verif
tier=${1:-quick}
for i in 01 02 03 04 05 06 07 08 09 10 11 12 13 14 15 16 17; do
  s=$(date +%s.%N)
  ./check C$i --tier $tier > .build/run-C$i-$tier.log 2>&1; code=$?
  e=$(date +%s.%N)
  printf "C%s exit=%d wall=%.1fs  %s\n" $i $code $(echo "$e - $s" | bc) "$(grep -c '^KNOWN-FINDING' .build/run-C$i-$tier.log) known, $(grep -c '^VIOLATION' .build/run-C$i-$tier.log) violations"
done
