#!/bin/bash
# Scratch pair for experiments that must not touch /repo (seeded changes, benign changes, surveys)
# while background runs are using it:
#   tools/scratch.sh make <dir>    -> <dir>/repo (git worktree of /repo HEAD), <dir>/verif (copy of this tree,
#                                     harness Cargo.toml files pointing at <dir>/repo)
#   tools/scratch.sh sync <dir>    -> refresh <dir>/verif from this tree (keeps its build output)
#   tools/scratch.sh drop <dir>    -> remove both, with build output
# Then e.g.  REPO=<dir>/repo <dir>/verif/tools/seedall.sh
V="$(cd "$(dirname "$0")/.." && pwd)"
cmd=$1; d=$2
[ -z "$d" ] && { echo "usage: scratch.sh make|sync|drop <dir>"; exit 2; }
sync() {
  mkdir -p "$d/verif"
  rsync -a --delete --exclude .git --exclude .build --exclude replays --exclude evidence "$V/" "$d/verif/"
  mkdir -p "$d/verif/evidence"
  sed -i "s#path = \"/repo\"#path = \"$d/repo\"#" "$d/verif/harness/pvcheck/Cargo.toml" "$d/verif/loomharness/Cargo.toml"
}
case "$cmd" in
  make) mkdir -p "$d"; git -C /repo worktree add -q --detach "$d/repo" HEAD || exit 2; sync ;;
  sync) sync ;;
  drop) git -C /repo worktree remove --force "$d/repo"; rm -rf "$d" ;;
esac
