#!/bin/bash
# Confirm a sub-agent's seeded defect and run our checks against it.
V="$(cd "$(dirname "$0")/.." && pwd)"
REPO="${REPO:-/repo}"; mkdir -p "$V/.build"
# usage: tools/seedcheck.sh <seed-id> <worktree> <check ids...>
# 1. in the scratch worktree: existing suite passes with the change, demo fails with / passes without
# 2. apply to /repo, run the quick checks named, undo.
id=$1; wt=$2; shift 2
cd $wt || exit 2
out=$V/seeded/$id; mkdir -p $out
cp OUT/patch.diff $out/patch.diff; cp OUT/seed_demo.rs $out/seed_demo.rs 2>/dev/null; cp OUT/notes.md $out/notes.md 2>/dev/null
export CARGO_NET_OFFLINE=true
[ -n "$SEED_RUSTFLAGS" ] && export RUSTFLAGS="$SEED_RUSTFLAGS"
git checkout -q -- src; mkdir -p tests; cp $out/seed_demo.rs tests/seed_demo.rs
without=$(cargo test --offline --test seed_demo 2>&1 | grep -E "^test result" | tail -1)
git apply $out/patch.diff || { echo "patch does not apply"; exit 2; }
with=$(cargo test --offline --test seed_demo 2>&1 | grep -E "^test result" | tail -1)
mv tests/seed_demo.rs /tmp/seed_demo_$id.rs
suite=$(cargo test --workspace --offline 2>&1 | grep -E "^test result" | tr '\n' ' ')
mv /tmp/seed_demo_$id.rs tests/seed_demo.rs
echo "demo WITHOUT change: $without"
echo "demo WITH change:    $with"
echo "suite WITH change:   $suite"
unset RUSTFLAGS; cd "$V"
if [ -n "$(git -C "$REPO" status --porcelain --untracked-files=no)" ]; then echo "$REPO is dirty"; exit 2; fi
git -C "$REPO" apply $out/patch.diff || { echo "patch does not apply to $REPO"; exit 2; }
res=""
for p in "$@"; do
  ./check $p --tier quick > $V/.build/seed-$id-$p.log 2>&1; code=$?
  rule=$(grep -m1 "rule=" $V/.build/seed-$id-$p.log | sed 's/^ *//' | cut -c1-160)
  echo "check $p exit=$code $rule"
  res="$res $p:$code"
done
git -C "$REPO" checkout -- . ; git -C "$REPO" clean -fdq src
echo "RESULT $id $res"
