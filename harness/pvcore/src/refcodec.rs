//! Independent MQTT 5.0 reference codec, written from the OASIS tables. Shares no code with poster.
//!
//! * strict decoder for client -> server packets (what the library writes)
//! * encoder for server -> client packets with explicit control over property order / repetition and
//!   the shortened forms.

use std::fmt;

#[derive(Clone, Debug, PartialEq, Eq, PartialOrd, Ord)]
pub enum PVal {
    Byte(u8),
    U16(u16),
    U32(u32),
    Var(u32),
    Str(String),
    Bin(Vec<u8>),
    Pair(String, String),
}

#[derive(Clone, Debug, PartialEq, Eq, PartialOrd, Ord)]
pub struct Prop {
    pub id: u8,
    pub val: PVal,
}

impl Prop {
    pub fn byte(id: u8, v: u8) -> Self {
        Prop {
            id,
            val: PVal::Byte(v),
        }
    }
    pub fn u16(id: u8, v: u16) -> Self {
        Prop {
            id,
            val: PVal::U16(v),
        }
    }
    pub fn u32(id: u8, v: u32) -> Self {
        Prop {
            id,
            val: PVal::U32(v),
        }
    }
    pub fn var(id: u8, v: u32) -> Self {
        Prop {
            id,
            val: PVal::Var(v),
        }
    }
    pub fn str(id: u8, v: &str) -> Self {
        Prop {
            id,
            val: PVal::Str(v.to_string()),
        }
    }
    pub fn bin(id: u8, v: &[u8]) -> Self {
        Prop {
            id,
            val: PVal::Bin(v.to_vec()),
        }
    }
    pub fn user(k: &str, v: &str) -> Self {
        Prop {
            id: 38,
            val: PVal::Pair(k.to_string(), v.to_string()),
        }
    }
}

#[derive(Clone, Copy, Debug, PartialEq, Eq)]
pub enum PType {
    Byte,
    U16,
    U32,
    Var,
    Str,
    Bin,
    Pair,
}

pub const P_PAYLOAD_FORMAT: u8 = 1;
pub const P_MESSAGE_EXPIRY: u8 = 2;
pub const P_CONTENT_TYPE: u8 = 3;
pub const P_RESPONSE_TOPIC: u8 = 8;
pub const P_CORRELATION_DATA: u8 = 9;
pub const P_SUBSCRIPTION_ID: u8 = 11;
pub const P_SESSION_EXPIRY: u8 = 17;
pub const P_ASSIGNED_CLIENT_ID: u8 = 18;
pub const P_SERVER_KEEP_ALIVE: u8 = 19;
pub const P_AUTH_METHOD: u8 = 21;
pub const P_AUTH_DATA: u8 = 22;
pub const P_REQUEST_PROBLEM_INFO: u8 = 23;
pub const P_WILL_DELAY: u8 = 24;
pub const P_REQUEST_RESPONSE_INFO: u8 = 25;
pub const P_RESPONSE_INFO: u8 = 26;
pub const P_SERVER_REFERENCE: u8 = 28;
pub const P_REASON_STRING: u8 = 31;
pub const P_RECEIVE_MAXIMUM: u8 = 33;
pub const P_TOPIC_ALIAS_MAXIMUM: u8 = 34;
pub const P_TOPIC_ALIAS: u8 = 35;
pub const P_MAXIMUM_QOS: u8 = 36;
pub const P_RETAIN_AVAILABLE: u8 = 37;
pub const P_USER_PROPERTY: u8 = 38;
pub const P_MAXIMUM_PACKET_SIZE: u8 = 39;
pub const P_WILDCARD_SUB_AVAILABLE: u8 = 40;
pub const P_SUB_ID_AVAILABLE: u8 = 41;
pub const P_SHARED_SUB_AVAILABLE: u8 = 42;

/// MQTT 5.0 table 2-4: identifier -> data type.
pub fn prop_type(id: u8) -> Option<PType> {
    Some(match id {
        1 | 23 | 25 | 36 | 37 | 40 | 41 | 42 => PType::Byte,
        19 | 33 | 34 | 35 => PType::U16,
        2 | 17 | 24 | 39 => PType::U32,
        11 => PType::Var,
        3 | 8 | 18 | 21 | 26 | 28 | 31 => PType::Str,
        9 | 22 => PType::Bin,
        38 => PType::Pair,
        _ => return None,
    })
}

pub fn prop_name(id: u8) -> &'static str {
    match id {
        1 => "payload_format_indicator",
        2 => "message_expiry_interval",
        3 => "content_type",
        8 => "response_topic",
        9 => "correlation_data",
        11 => "subscription_identifier",
        17 => "session_expiry_interval",
        18 => "assigned_client_identifier",
        19 => "server_keep_alive",
        21 => "authentication_method",
        22 => "authentication_data",
        23 => "request_problem_information",
        24 => "will_delay_interval",
        25 => "request_response_information",
        26 => "response_information",
        28 => "server_reference",
        31 => "reason_string",
        33 => "receive_maximum",
        34 => "topic_alias_maximum",
        35 => "topic_alias",
        36 => "maximum_qos",
        37 => "retain_available",
        38 => "user_property",
        39 => "maximum_packet_size",
        40 => "wildcard_subscription_available",
        41 => "subscription_identifier_available",
        42 => "shared_subscription_available",
        _ => "?",
    }
}

// ----------------------------------------------------------------------------------------------
// primitives

#[derive(Clone, Debug, PartialEq, Eq)]
pub struct DecErr(pub String);
impl fmt::Display for DecErr {
    fn fmt(&self, f: &mut fmt::Formatter<'_>) -> fmt::Result {
        write!(f, "{}", self.0)
    }
}
fn err<T>(s: impl Into<String>) -> Result<T, DecErr> {
    Err(DecErr(s.into()))
}

pub fn vbi_encode(mut v: u32, out: &mut Vec<u8>) {
    assert!(v <= 268_435_455);
    loop {
        let mut b = (v % 128) as u8;
        v /= 128;
        if v > 0 {
            b |= 0x80;
        }
        out.push(b);
        if v == 0 {
            break;
        }
    }
}
pub fn vbi_len(v: u32) -> usize {
    match v {
        0..=127 => 1,
        128..=16383 => 2,
        16384..=2097151 => 3,
        _ => 4,
    }
}

struct Rd<'a> {
    b: &'a [u8],
    p: usize,
}
impl<'a> Rd<'a> {
    fn left(&self) -> usize {
        self.b.len() - self.p
    }
    fn u8(&mut self) -> Result<u8, DecErr> {
        if self.left() < 1 {
            return err("truncated u8");
        }
        let v = self.b[self.p];
        self.p += 1;
        Ok(v)
    }
    fn u16(&mut self) -> Result<u16, DecErr> {
        if self.left() < 2 {
            return err("truncated u16");
        }
        let v = u16::from_be_bytes([self.b[self.p], self.b[self.p + 1]]);
        self.p += 2;
        Ok(v)
    }
    fn u32(&mut self) -> Result<u32, DecErr> {
        if self.left() < 4 {
            return err("truncated u32");
        }
        let v = u32::from_be_bytes([
            self.b[self.p],
            self.b[self.p + 1],
            self.b[self.p + 2],
            self.b[self.p + 3],
        ]);
        self.p += 4;
        Ok(v)
    }
    /// strict: minimal encoding required
    fn vbi(&mut self) -> Result<u32, DecErr> {
        let mut v: u32 = 0;
        let mut mult: u32 = 1;
        for i in 0..4 {
            let b = self.u8()?;
            v += (b as u32 & 127) * mult;
            mult = mult.wrapping_mul(128);
            if b & 0x80 == 0 {
                if vbi_len(v) != i + 1 {
                    return err("non-minimal variable byte integer");
                }
                return Ok(v);
            }
        }
        err("variable byte integer longer than 4 bytes")
    }
    fn bytes(&mut self, n: usize) -> Result<&'a [u8], DecErr> {
        if self.left() < n {
            return err("truncated bytes");
        }
        let s = &self.b[self.p..self.p + n];
        self.p += n;
        Ok(s)
    }
    fn bin(&mut self) -> Result<Vec<u8>, DecErr> {
        let n = self.u16()? as usize;
        Ok(self.bytes(n)?.to_vec())
    }
    fn str(&mut self) -> Result<String, DecErr> {
        let n = self.u16()? as usize;
        let s = self.bytes(n)?;
        match std::str::from_utf8(s) {
            Ok(s) => {
                if s.contains('\0') {
                    return err("UTF-8 string contains U+0000");
                }
                Ok(s.to_string())
            }
            Err(_) => err("invalid UTF-8"),
        }
    }
}

fn put_str(out: &mut Vec<u8>, s: &str) {
    assert!(s.len() <= 65535);
    out.extend_from_slice(&(s.len() as u16).to_be_bytes());
    out.extend_from_slice(s.as_bytes());
}
fn put_bin(out: &mut Vec<u8>, s: &[u8]) {
    assert!(s.len() <= 65535);
    out.extend_from_slice(&(s.len() as u16).to_be_bytes());
    out.extend_from_slice(s);
}

pub fn encode_props(props: &[Prop]) -> Vec<u8> {
    let mut body = Vec::new();
    for p in props {
        body.push(p.id);
        match &p.val {
            PVal::Byte(v) => body.push(*v),
            PVal::U16(v) => body.extend_from_slice(&v.to_be_bytes()),
            PVal::U32(v) => body.extend_from_slice(&v.to_be_bytes()),
            PVal::Var(v) => vbi_encode(*v, &mut body),
            PVal::Str(s) => put_str(&mut body, s),
            PVal::Bin(b) => put_bin(&mut body, b),
            PVal::Pair(k, v) => {
                put_str(&mut body, k);
                put_str(&mut body, v);
            }
        }
    }
    let mut out = Vec::new();
    vbi_encode(body.len() as u32, &mut out);
    out.extend_from_slice(&body);
    out
}

/// Decode a property block (length prefix + properties), strict.
fn decode_props(r: &mut Rd, allowed: &[u8], multi: &[u8]) -> Result<Vec<Prop>, DecErr> {
    let len = r.vbi()? as usize;
    if r.left() < len {
        return err("property length exceeds packet");
    }
    let end = r.p + len;
    let mut sub = Rd {
        b: &r.b[..end],
        p: r.p,
    };
    let mut props: Vec<Prop> = Vec::new();
    while sub.p < end {
        let id = sub.vbi()?;
        if id > 255 {
            return err("property id too large");
        }
        let id = id as u8;
        let Some(t) = prop_type(id) else {
            return err(format!("unknown property id {}", id));
        };
        if !allowed.contains(&id) {
            return err(format!(
                "property {} ({}) not allowed in this packet",
                id,
                prop_name(id)
            ));
        }
        if !multi.contains(&id) && props.iter().any(|p| p.id == id) {
            return err(format!("property {} ({}) repeated", id, prop_name(id)));
        }
        let val = match t {
            PType::Byte => PVal::Byte(sub.u8()?),
            PType::U16 => PVal::U16(sub.u16()?),
            PType::U32 => PVal::U32(sub.u32()?),
            PType::Var => PVal::Var(sub.vbi()?),
            PType::Str => PVal::Str(sub.str()?),
            PType::Bin => PVal::Bin(sub.bin()?),
            PType::Pair => {
                let k = sub.str()?;
                let v = sub.str()?;
                PVal::Pair(k, v)
            }
        };
        // value domains
        match (id, &val) {
            (1 | 23 | 25, PVal::Byte(b)) if *b > 1 => {
                return err(format!("property {} must be 0 or 1", prop_name(id)))
            }
            (33 | 35, PVal::U16(0)) => return err(format!("property {} must not be 0", prop_name(id))),
            (39, PVal::U32(0)) => return err("maximum_packet_size must not be 0"),
            (11, PVal::Var(0)) => return err("subscription identifier must not be 0"),
            _ => {}
        }
        props.push(Prop { id, val });
    }
    if sub.p != end {
        return err("property overruns property length");
    }
    r.p = end;
    Ok(props)
}

// ----------------------------------------------------------------------------------------------
// client -> server packets

#[derive(Clone, Debug, PartialEq, Eq)]
pub struct Will {
    pub qos: u8,
    pub retain: bool,
    pub props: Vec<Prop>,
    pub topic: String,
    pub payload: Vec<u8>,
}

#[derive(Clone, Debug, PartialEq, Eq)]
pub struct Connect {
    pub clean_start: bool,
    pub keep_alive: u16,
    pub props: Vec<Prop>,
    pub client_id: String,
    pub will: Option<Will>,
    pub username: Option<String>,
    pub password: Option<Vec<u8>>,
}

/// (Debug abbreviates long payloads to their length and a hash: traces are hashed and printed through
/// Debug, and a payload may be hundreds of MiB long; equality compares every byte)
impl std::fmt::Debug for Publish {
    fn fmt(&self, f: &mut std::fmt::Formatter<'_>) -> std::fmt::Result {
        let mut d = f.debug_struct("Publish");
        d.field("dup", &self.dup)
            .field("qos", &self.qos)
            .field("retain", &self.retain)
            .field("topic", &self.topic)
            .field("pid", &self.pid)
            .field("props", &self.props);
        if self.payload.len() > 64 {
            let mut h = 0xcbf29ce484222325u64;
            for b in &self.payload {
                h ^= *b as u64;
                h = h.wrapping_mul(0x100000001b3);
            }
            d.field("payload", &format_args!("[{}B#{:016x}]", self.payload.len(), h));
        } else {
            d.field("payload", &self.payload);
        }
        d.finish()
    }
}

#[derive(Clone, PartialEq, Eq)]
pub struct Publish {
    pub dup: bool,
    pub qos: u8,
    pub retain: bool,
    pub topic: String,
    pub pid: Option<u16>,
    pub props: Vec<Prop>,
    pub payload: Vec<u8>,
}

#[derive(Clone, Debug, PartialEq, Eq)]
pub struct Ack {
    pub pid: u16,
    pub reason: u8,
    pub props: Vec<Prop>,
}

#[derive(Clone, Debug, PartialEq, Eq)]
pub struct SubFilter {
    pub filter: String,
    pub qos: u8,
    pub no_local: bool,
    pub retain_as_published: bool,
    pub retain_handling: u8,
}

#[derive(Clone, Debug, PartialEq, Eq)]
pub struct Subscribe {
    pub pid: u16,
    pub props: Vec<Prop>,
    pub filters: Vec<SubFilter>,
}

#[derive(Clone, Debug, PartialEq, Eq)]
pub struct Unsubscribe {
    pub pid: u16,
    pub props: Vec<Prop>,
    pub filters: Vec<String>,
}

#[derive(Clone, Debug, PartialEq, Eq)]
pub struct Disconnect {
    pub reason: u8,
    pub props: Vec<Prop>,
}

#[derive(Clone, Debug, PartialEq, Eq)]
pub struct Auth {
    pub reason: u8,
    pub props: Vec<Prop>,
}

#[derive(Clone, Debug, PartialEq, Eq)]
pub enum CPacket {
    Connect(Connect),
    Publish(Publish),
    Puback(Ack),
    Pubrec(Ack),
    Pubrel(Ack),
    Pubcomp(Ack),
    Subscribe(Subscribe),
    Unsubscribe(Unsubscribe),
    Pingreq,
    Disconnect(Disconnect),
    Auth(Auth),
}

impl CPacket {
    pub fn kind(&self) -> &'static str {
        match self {
            CPacket::Connect(_) => "CONNECT",
            CPacket::Publish(_) => "PUBLISH",
            CPacket::Puback(_) => "PUBACK",
            CPacket::Pubrec(_) => "PUBREC",
            CPacket::Pubrel(_) => "PUBREL",
            CPacket::Pubcomp(_) => "PUBCOMP",
            CPacket::Subscribe(_) => "SUBSCRIBE",
            CPacket::Unsubscribe(_) => "UNSUBSCRIBE",
            CPacket::Pingreq => "PINGREQ",
            CPacket::Disconnect(_) => "DISCONNECT",
            CPacket::Auth(_) => "AUTH",
        }
    }
    pub fn pid(&self) -> Option<u16> {
        match self {
            CPacket::Publish(p) => p.pid,
            CPacket::Puback(a) | CPacket::Pubrec(a) | CPacket::Pubrel(a) | CPacket::Pubcomp(a) => {
                Some(a.pid)
            }
            CPacket::Subscribe(s) => Some(s.pid),
            CPacket::Unsubscribe(s) => Some(s.pid),
            _ => None,
        }
    }
    /// short, schedule-independent rendering for traces
    pub fn brief(&self) -> String {
        match self {
            CPacket::Connect(_) => "CONNECT".into(),
            CPacket::Publish(p) => format!(
                "PUBLISH(q{}{}{} pid={:?} t={} pl={})",
                p.qos,
                if p.dup { " dup" } else { "" },
                if p.retain { " ret" } else { "" },
                p.pid,
                p.topic,
                brief_bytes(&p.payload)
            ),
            CPacket::Puback(a) => format!("PUBACK({},r{:#x})", a.pid, a.reason),
            CPacket::Pubrec(a) => format!("PUBREC({},r{:#x})", a.pid, a.reason),
            CPacket::Pubrel(a) => format!("PUBREL({},r{:#x})", a.pid, a.reason),
            CPacket::Pubcomp(a) => format!("PUBCOMP({},r{:#x})", a.pid, a.reason),
            CPacket::Subscribe(s) => format!(
                "SUBSCRIBE({},sub_id={:?},n={})",
                s.pid,
                s.props.iter().find(|p| p.id == 11).map(|p| &p.val),
                s.filters.len()
            ),
            CPacket::Unsubscribe(s) => format!("UNSUBSCRIBE({},n={})", s.pid, s.filters.len()),
            CPacket::Pingreq => "PINGREQ".into(),
            CPacket::Disconnect(d) => format!("DISCONNECT(r{:#x})", d.reason),
            CPacket::Auth(a) => format!("AUTH(r{:#x})", a.reason),
        }
    }
}

pub fn brief_bytes(b: &[u8]) -> String {
    if b.len() <= 12 {
        match std::str::from_utf8(b) {
            Ok(s) if s.chars().all(|c| c.is_ascii_graphic()) => format!("'{}'", s),
            _ => format!("{:02x?}", b),
        }
    } else {
        let mut h = 0xcbf29ce484222325u64;
        crate::explore::fnv(&mut h, b);
        format!("[{}B#{:08x}]", b.len(), h as u32)
    }
}

const ACK_PROPS: &[u8] = &[31, 38];
const PUBACK_REASONS: &[u8] = &[0x00, 0x10, 0x80, 0x83, 0x87, 0x90, 0x91, 0x97, 0x99];
const PUBREL_REASONS: &[u8] = &[0x00, 0x92];
pub const DISCONNECT_REASONS: &[u8] = &[
    0x00, 0x04, 0x80, 0x81, 0x82, 0x83, 0x87, 0x89, 0x8b, 0x8d, 0x8e, 0x8f, 0x90, 0x93, 0x94, 0x95,
    0x96, 0x97, 0x98, 0x99, 0x9a, 0x9b, 0x9c, 0x9d, 0x9e, 0x9f, 0xa0, 0xa1, 0xa2,
];

/// How many bytes the first packet in `buf` occupies, if its fixed header is complete.
/// Err for a malformed remaining length.
pub fn frame_len(buf: &[u8]) -> Result<Option<usize>, DecErr> {
    if buf.len() < 2 {
        return Ok(None);
    }
    let mut v: usize = 0;
    let mut mult: usize = 1;
    for i in 0..4 {
        let Some(&b) = buf.get(1 + i) else {
            return Ok(None);
        };
        v += (b as usize & 127) * mult;
        mult *= 128;
        if b & 0x80 == 0 {
            return Ok(Some(1 + i + 1 + v));
        }
    }
    err("remaining length longer than 4 bytes")
}

/// Strictly decode exactly one client packet occupying the whole of `buf`.
pub fn decode_client(buf: &[u8]) -> Result<CPacket, DecErr> {
    let mut r = Rd { b: buf, p: 0 };
    let h = r.u8()?;
    let rem = r.vbi()? as usize;
    if r.left() != rem {
        return err(format!(
            "remaining length {} but {} bytes follow",
            rem,
            r.left()
        ));
    }
    let ty = h >> 4;
    let fl = h & 0x0f;
    let pkt = match ty {
        1 => {
            if fl != 0 {
                return err("CONNECT reserved flags");
            }
            if r.str()? != "MQTT" {
                return err("protocol name");
            }
            if r.u8()? != 5 {
                return err("protocol version");
            }
            let cf = r.u8()?;
            if cf & 1 != 0 {
                return err("CONNECT flags reserved bit set");
            }
            let clean_start = cf & 2 != 0;
            let will_flag = cf & 4 != 0;
            let will_qos = (cf >> 3) & 3;
            let will_retain = cf & 0x20 != 0;
            let has_pw = cf & 0x40 != 0;
            let has_un = cf & 0x80 != 0;
            if will_qos == 3 {
                return err("will qos 3");
            }
            if !will_flag && (will_qos != 0 || will_retain) {
                return err("will qos/retain set without will flag");
            }
            let keep_alive = r.u16()?;
            let props = decode_props(&mut r, &[17, 33, 39, 34, 25, 23, 38, 21, 22], &[38])?;
            if props.iter().any(|p| p.id == 22) && !props.iter().any(|p| p.id == 21) {
                return err("authentication data without method");
            }
            let client_id = r.str()?;
            let will = if will_flag {
                let wprops = decode_props(&mut r, &[24, 1, 2, 3, 8, 9, 38], &[38])?;
                let topic = r.str()?;
                let payload = r.bin()?;
                Some(Will {
                    qos: will_qos,
                    retain: will_retain,
                    props: wprops,
                    topic,
                    payload,
                })
            } else {
                None
            };
            let username = if has_un { Some(r.str()?) } else { None };
            let password = if has_pw { Some(r.bin()?) } else { None };
            CPacket::Connect(Connect {
                clean_start,
                keep_alive,
                props,
                client_id,
                will,
                username,
                password,
            })
        }
        3 => {
            let dup = fl & 8 != 0;
            let qos = (fl >> 1) & 3;
            let retain = fl & 1 != 0;
            if qos == 3 {
                return err("PUBLISH qos 3");
            }
            if qos == 0 && dup {
                return err("PUBLISH qos 0 with DUP");
            }
            let topic = r.str()?;
            let pid = if qos > 0 {
                let p = r.u16()?;
                if p == 0 {
                    return err("packet identifier 0");
                }
                Some(p)
            } else {
                None
            };
            let props = decode_props(&mut r, &[1, 2, 35, 8, 9, 38, 3], &[38])?;
            let n = r.left();
            let payload = r.bytes(n)?.to_vec();
            CPacket::Publish(Publish {
                dup,
                qos,
                retain,
                topic,
                pid,
                props,
                payload,
            })
        }
        4 | 5 | 6 | 7 => {
            let want = if ty == 6 { 2 } else { 0 };
            if fl != want {
                return err("ack fixed header flags");
            }
            let pid = r.u16()?;
            if pid == 0 {
                return err("packet identifier 0");
            }
            let (reason, props) = if rem == 2 {
                (0, vec![])
            } else {
                let reason = r.u8()?;
                let props = if rem >= 4 {
                    decode_props(&mut r, ACK_PROPS, &[38])?
                } else {
                    vec![]
                };
                (reason, props)
            };
            let ok = if ty == 4 || ty == 5 {
                PUBACK_REASONS
            } else {
                PUBREL_REASONS
            };
            if !ok.contains(&reason) {
                return err(format!("reason {:#x} not valid for packet type {}", reason, ty));
            }
            let a = Ack { pid, reason, props };
            match ty {
                4 => CPacket::Puback(a),
                5 => CPacket::Pubrec(a),
                6 => CPacket::Pubrel(a),
                _ => CPacket::Pubcomp(a),
            }
        }
        8 => {
            if fl != 2 {
                return err("SUBSCRIBE flags");
            }
            let pid = r.u16()?;
            if pid == 0 {
                return err("packet identifier 0");
            }
            let props = decode_props(&mut r, &[11, 38], &[38])?;
            let mut filters = Vec::new();
            while r.left() > 0 {
                let filter = r.str()?;
                let o = r.u8()?;
                if o & 0xc0 != 0 {
                    return err(format!("subscription options reserved bits set ({:#04x})", o));
                }
                let qos = o & 3;
                if qos == 3 {
                    return err("subscription options qos 3");
                }
                let rh = (o >> 4) & 3;
                if rh == 3 {
                    return err("retain handling 3");
                }
                filters.push(SubFilter {
                    filter,
                    qos,
                    no_local: o & 4 != 0,
                    retain_as_published: o & 8 != 0,
                    retain_handling: rh,
                });
            }
            if filters.is_empty() {
                return err("SUBSCRIBE without topic filter");
            }
            CPacket::Subscribe(Subscribe {
                pid,
                props,
                filters,
            })
        }
        10 => {
            if fl != 2 {
                return err("UNSUBSCRIBE flags");
            }
            let pid = r.u16()?;
            if pid == 0 {
                return err("packet identifier 0");
            }
            let props = decode_props(&mut r, &[38], &[38])?;
            let mut filters = Vec::new();
            while r.left() > 0 {
                filters.push(r.str()?);
            }
            if filters.is_empty() {
                return err("UNSUBSCRIBE without topic filter");
            }
            CPacket::Unsubscribe(Unsubscribe {
                pid,
                props,
                filters,
            })
        }
        12 => {
            if fl != 0 || rem != 0 {
                return err("PINGREQ malformed");
            }
            CPacket::Pingreq
        }
        14 => {
            if fl != 0 {
                return err("DISCONNECT flags");
            }
            let (reason, props) = if rem == 0 {
                (0, vec![])
            } else {
                let reason = r.u8()?;
                let props = if rem >= 2 {
                    decode_props(&mut r, &[17, 31, 38], &[38])?
                } else {
                    vec![]
                };
                (reason, props)
            };
            if !DISCONNECT_REASONS.contains(&reason) {
                return err("DISCONNECT reason invalid");
            }
            CPacket::Disconnect(Disconnect { reason, props })
        }
        15 => {
            if fl != 0 {
                return err("AUTH flags");
            }
            let (reason, props) = if rem == 0 {
                (0, vec![])
            } else {
                let reason = r.u8()?;
                let props = decode_props(&mut r, &[21, 22, 31, 38], &[38])?;
                (reason, props)
            };
            if ![0x00, 0x18, 0x19].contains(&reason) {
                return err("AUTH reason invalid");
            }
            if rem != 0 && !props.iter().any(|p| p.id == 21) {
                return err("AUTH without authentication method");
            }
            CPacket::Auth(Auth { reason, props })
        }
        _ => return err(format!("packet type {} is not a client packet", ty)),
    };
    if r.left() != 0 {
        return err(format!("{} trailing bytes inside packet", r.left()));
    }
    Ok(pkt)
}

/// Split a byte stream into whole client packets; returns (packets, bytes of trailing partial packet).
pub fn decode_client_stream(buf: &[u8]) -> Result<(Vec<CPacket>, usize), DecErr> {
    let mut out = Vec::new();
    let mut p = 0;
    while p < buf.len() {
        match frame_len(&buf[p..])? {
            Some(n) if p + n <= buf.len() => {
                out.push(decode_client(&buf[p..p + n]).map_err(|e| {
                    DecErr(format!(
                        "packet #{} at offset {}: {} (bytes {})",
                        out.len(),
                        p,
                        e,
                        hex_head(&buf[p..p + n])
                    ))
                })?);
                p += n;
            }
            _ => break,
        }
    }
    Ok((out, buf.len() - p))
}

pub fn hex_head(b: &[u8]) -> String {
    let mut s = String::new();
    for x in b.iter().take(48) {
        s.push_str(&format!("{:02x}", x));
    }
    if b.len() > 48 {
        s.push_str(&format!("..({}B)", b.len()));
    }
    s
}

// ----------------------------------------------------------------------------------------------
// server -> client packets

#[derive(Clone, Debug, PartialEq, Eq)]
pub enum SPacket {
    Connack {
        session_present: bool,
        reason: u8,
        props: Vec<Prop>,
    },
    Publish {
        dup: bool,
        qos: u8,
        retain: bool,
        topic: String,
        pid: Option<u16>,
        props: Vec<Prop>,
        payload: Vec<u8>,
    },
    /// ty: 4 PUBACK, 5 PUBREC, 6 PUBREL, 7 PUBCOMP. form: 2 = pid only, 3 = pid+reason, 4 = full
    Ack {
        ty: u8,
        pid: u16,
        reason: u8,
        props: Vec<Prop>,
        form: u8,
    },
    Suback {
        pid: u16,
        props: Vec<Prop>,
        reasons: Vec<u8>,
    },
    Unsuback {
        pid: u16,
        props: Vec<Prop>,
        reasons: Vec<u8>,
    },
    Pingresp,
    /// form: 0 = remaining length 0, 1 = reason only, 2 = full
    Disconnect {
        reason: u8,
        props: Vec<Prop>,
        form: u8,
    },
    /// form: 0 = remaining length 0, 2 = full
    Auth {
        reason: u8,
        props: Vec<Prop>,
        form: u8,
    },
    Raw(Vec<u8>),
}

fn finish(h: u8, body: Vec<u8>) -> Vec<u8> {
    let mut out = vec![h];
    vbi_encode(body.len() as u32, &mut out);
    out.extend_from_slice(&body);
    out
}

impl SPacket {
    pub fn encode(&self) -> Vec<u8> {
        match self {
            SPacket::Connack {
                session_present,
                reason,
                props,
            } => {
                let mut b = vec![*session_present as u8, *reason];
                b.extend(encode_props(props));
                finish(0x20, b)
            }
            SPacket::Publish {
                dup,
                qos,
                retain,
                topic,
                pid,
                props,
                payload,
            } => {
                let h = 0x30 | ((*dup as u8) << 3) | (qos << 1) | (*retain as u8);
                let mut b = Vec::new();
                put_str(&mut b, topic);
                if let Some(p) = pid {
                    b.extend_from_slice(&p.to_be_bytes());
                }
                b.extend(encode_props(props));
                b.extend_from_slice(payload);
                finish(h, b)
            }
            SPacket::Ack {
                ty,
                pid,
                reason,
                props,
                form,
            } => {
                let h = (ty << 4) | if *ty == 6 { 2 } else { 0 };
                let mut b = pid.to_be_bytes().to_vec();
                if *form >= 3 {
                    b.push(*reason);
                }
                if *form >= 4 {
                    b.extend(encode_props(props));
                }
                finish(h, b)
            }
            SPacket::Suback {
                pid,
                props,
                reasons,
            } => {
                let mut b = pid.to_be_bytes().to_vec();
                b.extend(encode_props(props));
                b.extend_from_slice(reasons);
                finish(0x90, b)
            }
            SPacket::Unsuback {
                pid,
                props,
                reasons,
            } => {
                let mut b = pid.to_be_bytes().to_vec();
                b.extend(encode_props(props));
                b.extend_from_slice(reasons);
                finish(0xb0, b)
            }
            SPacket::Pingresp => vec![0xd0, 0x00],
            SPacket::Disconnect {
                reason,
                props,
                form,
            } => {
                let mut b = Vec::new();
                if *form >= 1 {
                    b.push(*reason);
                }
                if *form >= 2 {
                    b.extend(encode_props(props));
                }
                finish(0xe0, b)
            }
            SPacket::Auth {
                reason,
                props,
                form,
            } => {
                let mut b = Vec::new();
                if *form >= 2 {
                    b.push(*reason);
                    b.extend(encode_props(props));
                }
                finish(0xf0, b)
            }
            SPacket::Raw(v) => v.clone(),
        }
    }

    pub fn brief(&self) -> String {
        match self {
            SPacket::Connack { reason, props, .. } => {
                format!("CONNACK(r{:#x},props={})", reason, props.len())
            }
            SPacket::Publish {
                dup,
                qos,
                pid,
                props,
                payload,
                ..
            } => {
                let subs: Vec<u32> = props
                    .iter()
                    .filter(|p| p.id == 11)
                    .map(|p| if let PVal::Var(v) = p.val { v } else { 0 })
                    .collect();
                format!(
                    "PUBLISH(q{}{} pid={:?} sub={:?} pl={})",
                    qos,
                    if *dup { " dup" } else { "" },
                    pid,
                    subs,
                    brief_bytes(payload)
                )
            }
            SPacket::Ack {
                ty,
                pid,
                reason,
                form,
                ..
            } => format!(
                "{}({},r{:#x},form{})",
                ["", "", "", "", "PUBACK", "PUBREC", "PUBREL", "PUBCOMP"][*ty as usize],
                pid,
                reason,
                form
            ),
            SPacket::Suback { pid, reasons, .. } => format!("SUBACK({},{:x?})", pid, reasons),
            SPacket::Unsuback { pid, reasons, .. } => format!("UNSUBACK({},{:x?})", pid, reasons),
            SPacket::Pingresp => "PINGRESP".into(),
            SPacket::Disconnect { reason, form, .. } => {
                format!("DISCONNECT(r{:#x},form{})", reason, form)
            }
            SPacket::Auth { reason, form, .. } => format!("AUTH(r{:#x},form{})", reason, form),
            SPacket::Raw(v) => format!("RAW({})", hex_head(v)),
        }
    }
}

/// Encode a *client* packet with the reference encoder (used for self-checks and for computing the
/// expected length L of a request independently of the library).
pub fn encode_client(p: &CPacket) -> Vec<u8> {
    match p {
        CPacket::Connect(c) => {
            let mut b = Vec::new();
            put_str(&mut b, "MQTT");
            b.push(5);
            let mut fl = 0u8;
            if c.clean_start {
                fl |= 2;
            }
            if let Some(w) = &c.will {
                fl |= 4 | (w.qos << 3) | ((w.retain as u8) << 5);
            }
            if c.password.is_some() {
                fl |= 0x40;
            }
            if c.username.is_some() {
                fl |= 0x80;
            }
            b.push(fl);
            b.extend_from_slice(&c.keep_alive.to_be_bytes());
            b.extend(encode_props(&c.props));
            put_str(&mut b, &c.client_id);
            if let Some(w) = &c.will {
                b.extend(encode_props(&w.props));
                put_str(&mut b, &w.topic);
                put_bin(&mut b, &w.payload);
            }
            if let Some(u) = &c.username {
                put_str(&mut b, u);
            }
            if let Some(pw) = &c.password {
                put_bin(&mut b, pw);
            }
            finish(0x10, b)
        }
        CPacket::Publish(p) => SPacket::Publish {
            dup: p.dup,
            qos: p.qos,
            retain: p.retain,
            topic: p.topic.clone(),
            pid: p.pid,
            props: p.props.clone(),
            payload: p.payload.clone(),
        }
        .encode(),
        CPacket::Puback(a) | CPacket::Pubrec(a) | CPacket::Pubrel(a) | CPacket::Pubcomp(a) => {
            let ty = match p {
                CPacket::Puback(_) => 4,
                CPacket::Pubrec(_) => 5,
                CPacket::Pubrel(_) => 6,
                _ => 7,
            };
            let form = if a.props.is_empty() && a.reason == 0 {
                2
            } else {
                4
            };
            SPacket::Ack {
                ty,
                pid: a.pid,
                reason: a.reason,
                props: a.props.clone(),
                form,
            }
            .encode()
        }
        CPacket::Subscribe(s) => {
            let mut b = s.pid.to_be_bytes().to_vec();
            b.extend(encode_props(&s.props));
            for f in &s.filters {
                put_str(&mut b, &f.filter);
                b.push(
                    f.qos
                        | ((f.no_local as u8) << 2)
                        | ((f.retain_as_published as u8) << 3)
                        | (f.retain_handling << 4),
                );
            }
            finish(0x82, b)
        }
        CPacket::Unsubscribe(s) => {
            let mut b = s.pid.to_be_bytes().to_vec();
            b.extend(encode_props(&s.props));
            for f in &s.filters {
                put_str(&mut b, f);
            }
            finish(0xa2, b)
        }
        CPacket::Pingreq => vec![0xc0, 0],
        CPacket::Disconnect(d) => {
            let mut b = vec![d.reason];
            b.extend(encode_props(&d.props));
            finish(0xe0, b)
        }
        CPacket::Auth(a) => {
            if a.reason == 0 && a.props.is_empty() {
                return vec![0xf0, 0];
            }
            let mut b = vec![a.reason];
            b.extend(encode_props(&a.props));
            finish(0xf0, b)
        }
    }
}

/// Self-check of the reference codec: known-answer vectors (MQTT examples, incl. the byte arrays of
/// poster's own unit tests, which are examples of correct MQTT independent of this code) and
/// encode -> decode identity on its own enumerations. Returns the number of vectors checked.
pub fn self_check() -> Result<usize, String> {
    let mut n = 0;
    // variable byte integer boundaries (MQTT 5.0 table 1-1)
    for (v, enc) in [
        (0u32, vec![0x00u8]),
        (127, vec![0x7f]),
        (128, vec![0x80, 0x01]),
        (16383, vec![0xff, 0x7f]),
        (16384, vec![0x80, 0x80, 0x01]),
        (2097151, vec![0xff, 0xff, 0x7f]),
        (2097152, vec![0x80, 0x80, 0x80, 0x01]),
        (268435455, vec![0xff, 0xff, 0xff, 0x7f]),
    ] {
        let mut o = Vec::new();
        vbi_encode(v, &mut o);
        if o != enc {
            return Err(format!("vbi_encode({}) = {:x?}", v, o));
        }
        let mut r = Rd { b: &enc, p: 0 };
        if r.vbi() != Ok(v) {
            return Err(format!("vbi decode {:x?}", enc));
        }
        n += 1;
    }
    // non-minimal encodings are rejected
    {
        let e = [0x80u8, 0x00];
        let mut r = Rd { b: &e, p: 0 };
        if r.vbi().is_ok() {
            return Err("non-minimal vbi accepted".into());
        }
        n += 1;
    }
    // known answers: client packets from poster's unit tests
    let kat: Vec<(Vec<u8>, CPacket)> = vec![
        (vec![0xc0, 0x00], CPacket::Pingreq),
        (
            // connect::to_bytes_0: client id "test", everything else default
            vec![
                0x10, 17, 0, 4, b'M', b'Q', b'T', b'T', 5, 0, 0, 0, 0, 0, 4, b't', b'e', b's', b't',
            ],
            CPacket::Connect(Connect {
                clean_start: false,
                keep_alive: 0,
                props: vec![],
                client_id: "test".into(),
                will: None,
                username: None,
                password: None,
            }),
        ),
        (
            // publish::to_bytes_0
            vec![
                0x3b, 13, 0, 4, b't', b'e', b's', b't', 0, 13, 0, b't', b'e', b's', b't',
            ],
            CPacket::Publish(Publish {
                dup: true,
                qos: 1,
                retain: true,
                topic: "test".into(),
                pid: Some(13),
                props: vec![],
                payload: b"test".to_vec(),
            }),
        ),
        (
            vec![0x40, 2, 0x45, 0x73],
            CPacket::Puback(Ack {
                pid: 0x4573,
                reason: 0,
                props: vec![],
            }),
        ),
        (
            vec![0x62, 2, 0x45, 0x73],
            CPacket::Pubrel(Ack {
                pid: 0x4573,
                reason: 0,
                props: vec![],
            }),
        ),
        (
            // MQTT 5.0 figure 3-21 style SUBSCRIBE: filter "a/b" with QoS 1, no-local
            vec![0x82, 9, 0, 10, 0, 0, 3, b'a', b'/', b'b', 0x05],
            CPacket::Subscribe(Subscribe {
                pid: 10,
                props: vec![],
                filters: vec![SubFilter {
                    filter: "a/b".into(),
                    qos: 1,
                    no_local: true,
                    retain_as_published: false,
                    retain_handling: 0,
                }],
            }),
        ),
        (
            // retain handling 2, retain-as-published
            vec![0x82, 7, 0, 1, 0, 0, 1, b'x', 0x28],
            CPacket::Subscribe(Subscribe {
                pid: 1,
                props: vec![],
                filters: vec![SubFilter {
                    filter: "x".into(),
                    qos: 0,
                    no_local: false,
                    retain_as_published: true,
                    retain_handling: 2,
                }],
            }),
        ),
        (
            vec![0xa2, 6, 0, 2, 0, 0, 1, b'x'],
            CPacket::Unsubscribe(Unsubscribe {
                pid: 2,
                props: vec![],
                filters: vec!["x".into()],
            }),
        ),
        (
            vec![0xe0, 2, 0x04, 0],
            CPacket::Disconnect(Disconnect {
                reason: 4,
                props: vec![],
            }),
        ),
        (
            vec![0xf0, 0],
            CPacket::Auth(Auth {
                reason: 0,
                props: vec![],
            }),
        ),
        (
            vec![
                0xf0, 11, 0x18, 9, 21, 0, 1, b'm', 22, 0, 2, 1, 2,
            ],
            CPacket::Auth(Auth {
                reason: 0x18,
                props: vec![Prop::str(21, "m"), Prop::bin(22, &[1, 2])],
            }),
        ),
    ];
    for (bytes, want) in &kat {
        match decode_client(bytes) {
            Ok(p) if &p == want => {}
            other => {
                return Err(format!(
                    "KAT decode mismatch for {}: got {:?}, want {:?}",
                    hex_head(bytes),
                    other,
                    want
                ))
            }
        }
        let re = encode_client(want);
        if &re != bytes {
            return Err(format!(
                "KAT encode mismatch: {} vs {}",
                hex_head(&re),
                hex_head(bytes)
            ));
        }
        n += 1;
    }
    // server packets: known answers from poster's decoder tests / the standard
    let skat: Vec<(SPacket, Vec<u8>)> = vec![
        (
            SPacket::Connack {
                session_present: false,
                reason: 0,
                props: vec![],
            },
            vec![0x20, 3, 0, 0, 0],
        ),
        (
            SPacket::Connack {
                session_present: false,
                reason: 0,
                props: vec![Prop::u16(34, 10), Prop::u16(19, 0xffff), Prop::u16(33, 20)],
            },
            vec![0x20, 12, 0, 0, 9, 34, 0, 10, 19, 255, 255, 33, 0, 20],
        ),
        (
            SPacket::Ack {
                ty: 4,
                pid: 0x4573,
                reason: 0,
                props: vec![],
                form: 2,
            },
            vec![0x40, 2, 0x45, 0x73],
        ),
        (
            SPacket::Ack {
                ty: 5,
                pid: 0x4573,
                reason: 0,
                props: vec![Prop::str(31, "Success"), Prop::user("key", "val")],
                form: 4,
            },
            vec![
                0x50, 25, 0x45, 0x73, 0, 21, 31, 0, 7, b'S', b'u', b'c', b'c', b'e', b's', b's', 38, 0,
                3, b'k', b'e', b'y', 0, 3, b'v', b'a', b'l',
            ],
        ),
        (SPacket::Pingresp, vec![0xd0, 0]),
        (
            SPacket::Publish {
                dup: true,
                qos: 1,
                retain: true,
                topic: "test".into(),
                pid: Some(13),
                props: vec![],
                payload: b"test".to_vec(),
            },
            vec![
                0x3b, 13, 0, 4, b't', b'e', b's', b't', 0, 13, 0, b't', b'e', b's', b't',
            ],
        ),
        (
            SPacket::Suback {
                pid: 0x4573,
                props: vec![],
                reasons: vec![2],
            },
            vec![0x90, 4, 0x45, 0x73, 0, 2],
        ),
        (
            SPacket::Disconnect {
                reason: 0,
                props: vec![],
                form: 0,
            },
            vec![0xe0, 0],
        ),
        (
            SPacket::Auth {
                reason: 0,
                props: vec![],
                form: 0,
            },
            vec![0xf0, 0],
        ),
    ];
    for (p, want) in &skat {
        let got = p.encode();
        if &got != want {
            return Err(format!(
                "server KAT mismatch {:?}: {} vs {}",
                p,
                hex_head(&got),
                hex_head(want)
            ));
        }
        n += 1;
    }
    // round trip over a small enumeration of client packets with properties
    let strs = ["", "a", "\u{00e9}\u{4e2d}"];
    for (i, s) in strs.iter().enumerate() {
        for qos in 0..3u8 {
            let p = CPacket::Publish(Publish {
                dup: false,
                qos,
                retain: i % 2 == 0,
                topic: format!("t{}", s),
                pid: if qos > 0 { Some(1 + i as u16) } else { None },
                props: vec![
                    Prop::byte(1, 1),
                    Prop::u32(2, 7),
                    Prop::u16(35, 3),
                    Prop::str(8, s),
                    Prop::bin(9, s.as_bytes()),
                    Prop::user(s, "v"),
                    Prop::user(s, "w"),
                    Prop::str(3, s),
                ],
                payload: s.as_bytes().to_vec(),
            });
            let b = encode_client(&p);
            if decode_client(&b).as_ref() != Ok(&p) {
                return Err(format!("round trip failed for {:?}", p));
            }
            n += 1;
        }
    }
    Ok(n)
}
