//! Verdict protocol: replay files, known findings, evidence files.

use crate::explore::{hash_str, Stats, Violation};
use serde_json::{json, Value};
use std::path::{Path, PathBuf};

/// /verif, or the directory of the driver script that started us (background snapshots)
pub fn verif_dir() -> String {
    std::env::var("PV_VERIF_DIR").unwrap_or_else(|_| "/verif".to_string())
}

#[derive(Clone, Debug)]
pub struct Finding {
    pub id: String,
    pub property: String,
    pub rule: String,
    /// exact witness string, or a prefix terminated by '*'
    pub witness: String,
    pub status: String, // "open" | "fixed"
    pub what: String,
}

pub fn load_findings() -> Vec<Finding> {
    let p = Path::new(&verif_dir()).join("known_findings.json");
    let Ok(s) = std::fs::read_to_string(&p) else {
        return vec![];
    };
    let v: Value = match serde_json::from_str(&s) {
        Ok(v) => v,
        Err(e) => {
            eprintln!("MACHINERY: known_findings.json unreadable: {}", e);
            std::process::exit(2);
        }
    };
    let mut out = vec![];
    for e in v["findings"].as_array().cloned().unwrap_or_default() {
        out.push(Finding {
            id: e["id"].as_str().unwrap_or("").to_string(),
            property: e["property"].as_str().unwrap_or("").to_string(),
            rule: e["rule"].as_str().unwrap_or("").to_string(),
            witness: e["witness"].as_str().unwrap_or("").to_string(),
            status: e["status"].as_str().unwrap_or("").to_string(),
            what: e["what"].as_str().unwrap_or("").to_string(),
        });
    }
    out
}

fn matches(f: &Finding, v: &Violation) -> bool {
    if f.status != "open" || f.property != v.property || f.rule != v.rule {
        return false;
    }
    if let Some(pre) = f.witness.strip_suffix('*') {
        v.witness.starts_with(pre)
    } else {
        f.witness == v.witness
    }
}

pub struct Outcome {
    pub unknown: Vec<Violation>,
    pub known: Vec<(Finding, Violation)>,
}

pub fn triage(violations: &[Violation]) -> Outcome {
    let findings = load_findings();
    let mut o = Outcome {
        unknown: vec![],
        known: vec![],
    };
    for v in violations {
        if let Some(f) = findings.iter().find(|f| matches(f, v)) {
            if !o.known.iter().any(|(g, _)| g.id == f.id) {
                o.known.push((f.clone(), v.clone()));
            }
        } else {
            o.unknown.push(v.clone());
        }
    }
    o
}

pub fn write_replay(v: &Violation) -> PathBuf {
    let dir = Path::new(&verif_dir()).join("replays");
    let _ = std::fs::create_dir_all(&dir);
    let sig = format!("{}|{}", v.rule, v.witness);
    let name = format!(
        "{}-{}-{:08x}.json",
        v.property,
        v.rule.replace(|c: char| !c.is_ascii_alphanumeric(), "_"),
        hash_str(&sig) as u32
    );
    let path = dir.join(name);
    let doc = json!({
        "property": v.property,
        "rule": v.rule,
        "witness": v.witness,
        "detail": v.detail,
        "replay": v.replay,
    });
    if let Err(e) = std::fs::write(&path, serde_json::to_string_pretty(&doc).unwrap()) {
        eprintln!("MACHINERY: cannot write replay file {:?}: {}", path, e);
        std::process::exit(2);
    }
    path
}

pub struct EvidenceMeta<'a> {
    pub property: &'a str,
    pub tier: &'a str,
    pub level: &'a str,
    pub rule: String,
    pub bounds: Value,
    pub assumptions: Vec<String>,
    pub exhaustive: bool,
    pub extra: Value,
}

pub fn seed() -> i64 {
    std::env::var("VERIF_SEED")
        .ok()
        .and_then(|s| s.parse().ok())
        .unwrap_or(0)
}

pub fn write_evidence(meta: &EvidenceMeta, st: &Stats, outcome: &Outcome) {
    let dir = Path::new(&verif_dir()).join("evidence");
    let _ = std::fs::create_dir_all(&dir);
    let mut rule_hits = serde_json::Map::new();
    for (k, v) in &st.rule_hits {
        rule_hits.insert(k.to_string(), json!(v));
    }
    let mut samples = st.samples.clone();
    if samples.is_empty() {
        samples.push(json!("(no sample recorded)"));
    }
    let mut cov = json!({
        "evaluations": st.evaluations.max(st.executions),
        "distinct_nontrivial": st.nontrivial_traces.len(),
        "rule": meta.rule,
        "samples": samples,
        "states": st.states.len().max(1),
        "transitions": st.transitions.max(1),
        "traces_validated_against_impl": st.executions,
        "executions": st.executions,
        "distinct_traces": st.traces.len(),
        "max_depth": st.max_depth,
        "exhaustive": meta.exhaustive && !st.capped,
        "capped": st.capped,
        "bounds": meta.bounds,
        "rule_hits": Value::Object(rule_hits),
        "determinism_rechecks": st.determinism_rechecks,
        "known_findings_seen": outcome.known.iter().map(|(f, _)| f.id.clone()).collect::<Vec<_>>(),
        "explanation": "every explored trace is an execution of the real implementation (no separate model to conform)",
    });
    if let (Value::Object(c), Value::Object(x)) = (&mut cov, &meta.extra) {
        for (k, v) in x {
            c.insert(k.clone(), v.clone());
        }
    }
    let doc = json!({
        "property_id": meta.property,
        "tier": meta.tier,
        "seed": seed(),
        "level": meta.level,
        "coverage": cov,
        "assumptions": meta.assumptions,
        "wall_s": st.wall.as_secs_f64(),
        "violations": outcome.unknown.len(),
    });
    let path = dir.join(format!("{}.json", meta.property));
    if let Err(e) = std::fs::write(&path, serde_json::to_string_pretty(&doc).unwrap()) {
        eprintln!("MACHINERY: cannot write evidence {:?}: {}", path, e);
        std::process::exit(2);
    }
}

/// Print the verdict lines and return the process exit code.
pub fn verdict(property: &str, outcome: &Outcome) -> i32 {
    for (f, v) in &outcome.known {
        println!(
            "KNOWN-FINDING: property={} {} [{}; rule {}; witness {}]",
            property, f.what, f.id, v.rule, v.witness
        );
    }
    if outcome.unknown.is_empty() {
        return 0;
    }
    for v in &outcome.unknown {
        let p = write_replay(v);
        println!("VIOLATION property={} replay={}", property, p.display());
        println!("  rule={} witness={}", v.rule, v.witness);
        for l in v.detail.lines().take(12) {
            println!("  {}", l);
        }
    }
    1
}
