//! Stateless, deviation-bounded, exhaustive explorer.
//!
//! A *scenario* is ordinary imperative code that asks a [`Chooser`] whenever the environment has a
//! choice (`choose(n)`: plain branching; `deviate(n)`: alternative 0 is the default answer, every other
//! alternative costs one deviation and is only offered while the deviation budget lasts).
//! The explorer enumerates **every** choice sequence (depth-first, odometer style: the lexicographically
//! next sequence is derived from the recorded trail of the last execution), re-executing the scenario
//! from scratch each time - a state is the choice history that reaches it.
//!
//! An out-of-range forced choice while replaying a prefix is a machinery error (panic -> exit 2),
//! never a verdict.

use std::collections::{BTreeMap, HashSet, VecDeque};
use std::sync::atomic::{AtomicBool, AtomicU64, Ordering};
use std::sync::Mutex;
use std::time::{Duration, Instant};

#[derive(Clone, Copy, Debug)]
struct Point {
    chosen: u32,
    n: u32,
}

struct Inner {
    forced: Vec<u32>,
    trail: Vec<Point>,
    dev_used: u32,
    dev_budget: u32,
}

/// Interior-mutable so that the mock transport (polled from inside the library) can ask it too.
pub struct Chooser {
    inner: std::cell::RefCell<Inner>,
}
pub type Chz = std::rc::Rc<Chooser>;

impl Chooser {
    pub fn new(forced: Vec<u32>, dev_budget: u32) -> Chz {
        crate::hang::begin_execution(&forced);
        std::rc::Rc::new(Chooser {
            inner: std::cell::RefCell::new(Inner {
                forced,
                trail: Vec::new(),
                dev_used: 0,
                dev_budget,
            }),
        })
    }
    /// Plain branching over `n` alternatives; does not cost a deviation.
    pub fn choose(&self, n: usize) -> usize {
        self.inner.borrow_mut().pick(n)
    }
    /// Environment answer with a default (0). Alternatives 1..n each cost one deviation.
    pub fn deviate(&self, n: usize) -> usize {
        self.inner.borrow_mut().deviate(n)
    }
    pub fn deviations_used(&self) -> u32 {
        self.inner.borrow().dev_used
    }
    pub fn deviations_left(&self) -> u32 {
        let i = self.inner.borrow();
        i.dev_budget - i.dev_used
    }
    pub fn choices(&self) -> Vec<u32> {
        self.inner.borrow().trail.iter().map(|p| p.chosen).collect()
    }
    pub fn depth(&self) -> usize {
        self.inner.borrow().trail.len()
    }
    fn next_prefix(&self, fixed: usize) -> Option<Vec<u32>> {
        self.inner.borrow().next_prefix(fixed)
    }
    fn n_at(&self, pos: usize) -> Option<u32> {
        self.inner.borrow().trail.get(pos).map(|p| p.n)
    }
    /// Shallowest position >= fixed that still has untried alternatives: (position, prefixes to donate)
    fn split(&self, fixed: usize) -> Option<(usize, Vec<Vec<u32>>)> {
        let inner = self.inner.borrow();
        for i in fixed..inner.trail.len() {
            let p = inner.trail[i];
            if p.chosen + 1 < p.n {
                let base: Vec<u32> = inner.trail[..i].iter().map(|p| p.chosen).collect();
                let mut out = vec![];
                for c in p.chosen + 1..p.n {
                    let mut v = base.clone();
                    v.push(c);
                    out.push(v);
                }
                return Some((i, out));
            }
        }
        None
    }
}

impl Inner {
    fn pick(&mut self, n: usize) -> usize {
        assert!(n >= 1, "choose() with no alternatives");
        let pos = self.trail.len();
        let c = if pos < self.forced.len() {
            let c = self.forced[pos];
            assert!(
                (c as usize) < n,
                "MACHINERY: forced choice {} out of range {} at position {} (replay divergence)",
                c,
                n,
                pos
            );
            c
        } else {
            0
        };
        self.trail.push(Point {
            chosen: c,
            n: n as u32,
        });
        c as usize
    }

    fn deviate(&mut self, n: usize) -> usize {
        if self.dev_used >= self.dev_budget || n <= 1 {
            // Budget exhausted: only the default answer exists. No choice point is recorded, which is
            // consistent under replay because dev_used is a function of the prefix.
            return 0;
        }
        let c = self.pick(n);
        if c != 0 {
            self.dev_used += 1;
        }
        c
    }

    /// Next prefix in DFS order that does not touch positions below `fixed`.
    fn next_prefix(&self, fixed: usize) -> Option<Vec<u32>> {
        let mut i = self.trail.len();
        while i > fixed {
            i -= 1;
            let p = self.trail[i];
            if p.chosen + 1 < p.n {
                let mut v: Vec<u32> = self.trail[..i].iter().map(|p| p.chosen).collect();
                v.push(p.chosen + 1);
                return Some(v);
            }
        }
        None
    }
}

/// A violation found in one execution.
#[derive(Clone, Debug)]
pub struct Violation {
    pub property: String,
    /// Oracle rule that failed, e.g. "C08/no-ack".
    pub rule: String,
    /// Canonical, schedule-independent description of *what* fails (used for known-finding matching).
    pub witness: String,
    /// Human readable detail (expected vs observed).
    pub detail: String,
    /// The replayable event list / input, as JSON.
    pub replay: serde_json::Value,
}

/// Per-execution record handed to the scenario.
#[derive(Default)]
pub struct Exec {
    pub transitions: u64,
    pub state_keys: Vec<u64>,
    pub trace_hash: u64,
    pub nontrivial: bool,
    pub rule_hits: Vec<&'static str>,
    pub violations: Vec<Violation>,
    pub sample: Option<serde_json::Value>,
    pub evaluations: u64,
}

#[derive(Default)]
pub struct Stats {
    pub executions: u64,
    pub transitions: u64,
    pub evaluations: u64,
    pub states: HashSet<u64>,
    pub traces: HashSet<u64>,
    pub nontrivial_traces: HashSet<u64>,
    pub rule_hits: BTreeMap<&'static str, u64>,
    pub violations: Vec<Violation>,
    pub samples: Vec<serde_json::Value>,
    pub max_depth: usize,
    pub capped: bool,
    pub determinism_rechecks: u64,
    pub wall: Duration,
}

impl Stats {
    pub fn merge(&mut self, o: Stats) {
        self.executions += o.executions;
        self.transitions += o.transitions;
        self.evaluations += o.evaluations;
        self.states.extend(o.states);
        self.traces.extend(o.traces);
        self.nontrivial_traces.extend(o.nontrivial_traces);
        for (k, v) in o.rule_hits {
            *self.rule_hits.entry(k).or_default() += v;
        }
        for v in o.violations {
            self.add_violation(v);
        }
        for s in o.samples {
            if self.samples.len() < 6 {
                self.samples.push(s);
            }
        }
        self.max_depth = self.max_depth.max(o.max_depth);
        self.capped |= o.capped;
        self.determinism_rechecks += o.determinism_rechecks;
        self.wall = self.wall.max(o.wall);
    }

    /// Keep the first (= minimal in DFS order) violation per (rule, witness) signature.
    pub fn add_violation(&mut self, v: Violation) {
        if self.violations.len() >= 200 {
            return;
        }
        if !self
            .violations
            .iter()
            .any(|x| x.rule == v.rule && x.witness == v.witness)
        {
            self.violations.push(v);
        }
    }

    fn absorb(&mut self, e: Exec, depth: usize, want_sample: bool) {
        self.executions += 1;
        self.transitions += e.transitions;
        self.evaluations += e.evaluations.max(1);
        self.states.extend(e.state_keys);
        self.traces.insert(e.trace_hash);
        if e.nontrivial {
            self.nontrivial_traces.insert(e.trace_hash);
        }
        for r in e.rule_hits {
            *self.rule_hits.entry(r).or_default() += 1;
        }
        for v in e.violations {
            self.add_violation(v);
        }
        if want_sample {
            if let Some(s) = e.sample {
                if self.samples.len() < 6 {
                    self.samples.push(s);
                }
            }
        }
        self.max_depth = self.max_depth.max(depth);
    }
}

pub struct Limits {
    pub threads: usize,
    pub dev_budget: u32,
    pub wall: Duration,
    /// every N-th execution is run twice and the trace hashes compared
    pub recheck_every: u64,
    /// stop after this many distinct violations
    pub max_violations: usize,
    /// (rule, witness or prefix*) of recorded findings: they do not stop the exploration
    pub known: Vec<(String, String)>,
}

impl Limits {
    fn is_known(&self, v: &Violation) -> bool {
        self.known.iter().any(|(r, w)| {
            *r == v.rule
                && match w.strip_suffix('*') {
                    Some(pre) => v.witness.starts_with(pre),
                    None => *w == v.witness,
                }
        })
    }
}

impl Limits {
    pub fn new(dev_budget: u32, wall_s: u64, quick: bool) -> Self {
        let threads = std::env::var("PV_THREADS")
            .ok()
            .and_then(|s| s.parse().ok())
            .unwrap_or_else(|| {
                std::thread::available_parallelism()
                    .map(|n| n.get())
                    .unwrap_or(4)
            });
        Self {
            threads,
            dev_budget,
            wall: Duration::from_secs(wall_s),
            recheck_every: if quick { 257 } else { 4099 },
            max_violations: 20,
            known: vec![],
        }
    }
}

/// Explore all choice sequences of `scenario`. `scenario` must be deterministic given the chooser.
pub fn explore<F>(limits: &Limits, scenario: F) -> Stats
where
    F: Fn(&Chz, &mut Exec) + Sync,
{
    let start = Instant::now();
    let deadline = start + limits.wall;

    if std::env::var("PV_SEQ").is_ok() || limits.threads == 1 {
        // reference mode: plain sequential DFS, no seeding, no work sharing
        let mut total = Stats::default();
        let mut prefix = Some(Vec::new());
        while let Some(p) = prefix.take() {
            let ch = Chooser::new(p, limits.dev_budget);
            let mut ex = Exec::default();
            scenario(&ch, &mut ex);
            let d = ch.depth();
            total.absorb(ex, d, false);
            prefix = ch.next_prefix(0);
        }
        total.wall = start.elapsed();
        return total;
    }

    // Phase 1: breadth-first seeding so that workers get independent subtrees.
    let target = limits.threads * 12;
    let mut seeds: VecDeque<Vec<u32>> = VecDeque::new();
    seeds.push_back(Vec::new());
    let mut total = Stats::default();
    let mut rounds = 0;
    while seeds.len() < target && rounds < 200_000 {
        rounds += 1;
        // expand the shallowest seed
        let Some(seed) = seeds.pop_front() else { break };
        let ch = Chooser::new(seed.clone(), limits.dev_budget);
        let mut ex = Exec::default();
        let t_exec = Instant::now();
        scenario(&ch, &mut ex);
        let slow = t_exec.elapsed() > Duration::from_millis(20);
        if ch.depth() > seed.len() {
            let n = ch.n_at(seed.len()).unwrap();
            for c in 0..n {
                let mut s = seed.clone();
                s.push(c);
                seeds.push_back(s);
            }
        } else {
            // the seed itself is a complete execution
            let d = ch.depth();
            total.absorb(ex, d, true);
        }
        if seeds.is_empty() {
            break;
        }
        if seeds.iter().all(|s| s.len() > 12) || slow {
            break;
        }
    }

    let queue = Mutex::new(seeds);
    let stop = AtomicBool::new(false);
    let counter = AtomicU64::new(0);
    let nviol = AtomicU64::new(total.violations.len() as u64);

    let results: Vec<Stats> = std::thread::scope(|sc| {
        let mut hs = Vec::new();
        for _ in 0..limits.threads {
            hs.push(sc.spawn(|| {
                let mut st = Stats::default();
                loop {
                    if stop.load(Ordering::Relaxed) {
                        break;
                    }
                    let seed = { queue.lock().unwrap().pop_front() };
                    let Some(seed) = seed else { break };
                    let mut fixed = seed.len();
                    let mut prefix = Some(seed);
                    while let Some(p) = prefix.take() {
                        let ch = Chooser::new(p.clone(), limits.dev_budget);
                        let mut ex = Exec::default();
                        scenario(&ch, &mut ex);
                        let k = counter.fetch_add(1, Ordering::Relaxed);
                        if limits.recheck_every != 0 && k % limits.recheck_every == 0 {
                            let ch2 = Chooser::new(ch.choices(), limits.dev_budget);
                            let mut ex2 = Exec::default();
                            scenario(&ch2, &mut ex2);
                            st.determinism_rechecks += 1;
                            if ex2.trace_hash != ex.trace_hash
                                || ch2.choices() != ch.choices()
                                || ex2.violations.len() != ex.violations.len()
                            {
                                eprintln!(
                                    "MACHINERY: nondeterminism: choices {:?} gave two different traces",
                                    ch.choices()
                                );
                                std::process::exit(2);
                            }
                        }
                        let nv = ex.violations.iter().filter(|v| !limits.is_known(v)).count() as u64;
                        let d = ch.depth();
                        let want_sample = st.samples.len() < 3 && (k % 997 == 0 || ex.nontrivial);
                        st.absorb(ex, d, want_sample);
                        if nv > 0 {
                            let t = nviol.fetch_add(nv, Ordering::Relaxed) + nv;
                            if t as usize >= limits.max_violations {
                                stop.store(true, Ordering::Relaxed);
                            }
                        }
                        if k % 64 == 0 && Instant::now() > deadline {
                            st.capped = true;
                            stop.store(true, Ordering::Relaxed);
                        }
                        if stop.load(Ordering::Relaxed) {
                            break;
                        }
                        // work sharing: if other workers are about to idle, donate the untried
                        // alternatives of the shallowest open level of this subtree
                        {
                            let mut q = queue.lock().unwrap();
                            if q.len() < limits.threads {
                                if let Some((i, seeds)) = ch.split(fixed) {
                                    for s in seeds {
                                        q.push_back(s);
                                    }
                                    fixed = i + 1;
                                }
                            }
                        }
                        prefix = ch.next_prefix(fixed);
                    }
                }
                st
            }));
        }
        hs.into_iter()
            .map(|h| match h.join() {
                Ok(s) => s,
                Err(e) => {
                    let msg = e
                        .downcast_ref::<String>()
                        .cloned()
                        .or_else(|| e.downcast_ref::<&str>().map(|s| s.to_string()))
                        .unwrap_or_default();
                    eprintln!("MACHINERY: harness thread panicked: {}", msg);
                    std::process::exit(2);
                }
            })
            .collect()
    });
    let left = queue.lock().unwrap().len();
    for r in results {
        total.merge(r);
    }
    if left > 0 && !total.capped && (nviol.load(Ordering::Relaxed) as usize) < limits.max_violations
    {
        total.capped = true;
    }
    if left > 0 {
        total.capped = true;
    }
    total.wall = start.elapsed();
    total
}

/// Replay one recorded choice sequence (no exploration). Runs it twice and insists on identical traces.
pub fn replay<F>(choices: Vec<u32>, dev_budget: u32, scenario: F) -> Exec
where
    F: Fn(&Chz, &mut Exec),
{
    let ch = Chooser::new(choices.clone(), dev_budget);
    let mut ex = Exec::default();
    scenario(&ch, &mut ex);
    let ch2 = Chooser::new(choices, dev_budget);
    let mut ex2 = Exec::default();
    scenario(&ch2, &mut ex2);
    if ex.trace_hash != ex2.trace_hash {
        eprintln!("MACHINERY: replay is not deterministic");
        std::process::exit(2);
    }
    ex
}

pub fn fnv(h: &mut u64, bytes: &[u8]) {
    for b in bytes {
        *h ^= *b as u64;
        *h = h.wrapping_mul(0x100000001b3);
    }
}
pub fn hash_str(s: &str) -> u64 {
    let mut h = 0xcbf29ce484222325u64;
    fnv(&mut h, s.as_bytes());
    h
}

#[cfg(test)]
mod tests {
    use super::*;
    #[test]
    fn enumerates_all() {
        // 3 binary choices + one deviation point with 3 alternatives, budget 1
        let lim = Limits {
            threads: 4,
            dev_budget: 1,
            wall: Duration::from_secs(10),
            recheck_every: 1,
            max_violations: 10,
            known: vec![],
        };
        let st = explore(&lim, |ch, ex| {
            let a = ch.choose(2);
            let d1 = ch.deviate(3);
            let b = ch.choose(2);
            let d2 = ch.deviate(3);
            ex.trace_hash = (a * 1000 + d1 * 100 + b * 10 + d2) as u64;
            ex.transitions = 4;
        });
        // sequences: a in 2, b in 2, (d1,d2) in {(0,0),(0,1),(0,2),(1,0),(2,0)} = 5 -> 20
        assert_eq!(st.executions, 20);
        assert_eq!(st.traces.len(), 20);
    }
}
