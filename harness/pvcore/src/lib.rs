pub mod explore;
pub mod refcodec;
pub mod report;
pub mod hang;
