//! A library future that never returns from one poll (an infinite loop inside `poll_next`, say) cannot
//! be observed by the executor: it would simply never get control back. A monitor thread therefore
//! watches how long every worker has been inside a single poll of library code. Exceeding the limit is
//! a property violation of the *implementation* ("wedged"), reported with the choice prefix that
//! determines the execution (all later choices are the default 0, which is exactly how the explorer ran
//! it), and the process exits 1 at once - the spinning thread cannot be stopped.

use serde_json::{json, Value};
use std::sync::atomic::{AtomicU64, Ordering};
use std::sync::{Arc, Mutex, OnceLock};
use std::time::Instant;

pub struct Slot {
    since_ms: AtomicU64,
    forced: Mutex<Vec<u32>>,
    task: Mutex<String>,
}

static SLOTS: Mutex<Vec<Arc<Slot>>> = Mutex::new(Vec::new());
static START: OnceLock<Instant> = OnceLock::new();
static CONTEXT: Mutex<Option<(String, String, Value)>> = Mutex::new(None);

thread_local! {
    static MY: Arc<Slot> = {
        let s = Arc::new(Slot { since_ms: AtomicU64::new(0), forced: Mutex::new(Vec::new()), task: Mutex::new(String::new()) });
        SLOTS.lock().unwrap().push(s.clone());
        s
    };
}

fn now_ms() -> u64 {
    START.get_or_init(Instant::now).elapsed().as_millis() as u64 + 1
}

/// property, scenario and parameters of the part being explored (for the replay file)
pub fn set_context(property: &str, scenario: &str, params: &Value) {
    *CONTEXT.lock().unwrap() = Some((property.to_string(), scenario.to_string(), params.clone()));
}

/// called by `Chooser::new`: the forced prefix determines the execution
pub fn begin_execution(forced: &[u32]) {
    MY.with(|s| {
        let mut f = s.forced.lock().unwrap();
        f.clear();
        f.extend_from_slice(forced);
        s.since_ms.store(0, Ordering::Relaxed);
    });
}

pub fn enter(task: &str) {
    MY.with(|s| {
        {
            let mut t = s.task.lock().unwrap();
            if *t != task {
                t.clear();
                t.push_str(task);
            }
        }
        s.since_ms.store(now_ms(), Ordering::Release);
    });
}

pub fn leave() {
    MY.with(|s| s.since_ms.store(0, Ordering::Release));
}

pub fn limit_s() -> u64 {
    std::env::var("PV_HANG_S").ok().and_then(|s| s.parse().ok()).unwrap_or(30)
}

pub fn start_monitor() {
    let limit_ms = limit_s() * 1000;
    let _ = now_ms();
    std::thread::spawn(move || loop {
        std::thread::sleep(std::time::Duration::from_millis(500));
        let slots: Vec<Arc<Slot>> = SLOTS.lock().unwrap().clone();
        let now = now_ms();
        for s in slots {
            let since = s.since_ms.load(Ordering::Acquire);
            if since != 0 && now > since + limit_ms {
                let forced = s.forced.lock().unwrap().clone();
                let task = s.task.lock().unwrap().clone();
                let (property, scenario, params) = CONTEXT
                    .lock()
                    .unwrap()
                    .clone()
                    .unwrap_or_else(|| ("?".into(), "?".into(), json!({})));
                let v = crate::explore::Violation {
                    property: property.clone(),
                    rule: format!("{}/hang-in-poll", property),
                    witness: format!("poll of {} never returns", task),
                    detail: format!(
                        "a single poll of the library future '{}' has not returned for more than {} s (livelock inside the library: the executor never gets control back)\n execution: scenario {} with the choice prefix {:?} (default choices after it)",
                        task,
                        limit_ms / 1000,
                        scenario,
                        forced
                    ),
                    replay: json!({
                        "scenario": scenario,
                        "params": params,
                        "choices": forced,
                        "events": [format!("(execution determined by the choice prefix; it does not return from a poll of '{}')", task)],
                    }),
                };
                let p = crate::report::write_replay(&v);
                println!("VIOLATION property={} replay={}", property, p.display());
                println!("  rule={} witness={}", v.rule, v.witness);
                for l in v.detail.lines() {
                    println!("  {}", l);
                }
                use std::io::Write;
                let _ = std::io::stdout().flush();
                std::process::exit(1);
            }
        }
    });
}
