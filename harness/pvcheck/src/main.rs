mod model;
mod props;
mod spec;
mod sys;
mod wire;
mod world;

use props::Tier;

fn usage() -> ! {
    eprintln!("usage: pvcheck check <Cxx> [--tier quick|thorough] | replay <file> | selfcheck");
    std::process::exit(2);
}

fn main() {
    let args: Vec<String> = std::env::args().collect();
    world::install_panic_hook();
    if args.len() < 2 {
        usage();
    }
    match pvcore::refcodec::self_check() {
        Ok(_) => {}
        Err(e) => {
            eprintln!("MACHINERY: reference codec self-check failed: {}", e);
            std::process::exit(2);
        }
    }
    match args[1].as_str() {
        "selfcheck" => {
            println!("reference codec self-check ok: {} vectors", pvcore::refcodec::self_check().unwrap());
        }
        "check" => {
            let id = args.get(2).cloned().unwrap_or_else(|| usage());
            let mut tier = match std::env::var("VERIF_TIER").as_deref() {
                Ok("thorough") => Tier::Thorough,
                _ => Tier::Quick,
            };
            let mut i = 3;
            while i < args.len() {
                if args[i] == "--tier" {
                    tier = match args.get(i + 1).map(|s| s.as_str()) {
                        Some("thorough") => Tier::Thorough,
                        Some("quick") => Tier::Quick,
                        _ => usage(),
                    };
                    i += 1;
                }
                i += 1;
            }
            // a panic of the harness itself (outside the guarded polls of library code) is a machinery
            // error with a message, never a silent exit status
            let code = std::panic::catch_unwind(|| props::run_check(&id, tier)).unwrap_or_else(|_| {
                eprintln!("MACHINERY: the harness panicked: {}", world::last_panic_text());
                2
            });
            std::process::exit(code);
        }
        "trickle" => {
            let n: usize = args.get(2).and_then(|s| s.parse().ok()).unwrap_or(65536);
            std::process::exit(props::c04::trickle_main(n));
        }
        "replay" => {
            let path = args.get(2).cloned().unwrap_or_else(|| usage());
            std::process::exit(replay(&path));
        }
        _ => usage(),
    }
}

fn replay(path: &str) -> i32 {
    let s = match std::fs::read_to_string(path) {
        Ok(s) => s,
        Err(e) => {
            eprintln!("MACHINERY: cannot read {}: {}", path, e);
            return 2;
        }
    };
    let v: serde_json::Value = serde_json::from_str(&s).expect("MACHINERY: replay file is not JSON");
    let r = &v["replay"];
    let name = r["scenario"].as_str().unwrap_or("");
    let params = r["params"].clone();
    let choices: Vec<u32> = r["choices"]
        .as_array()
        .map(|a| a.iter().map(|x| x.as_u64().unwrap() as u32).collect())
        .unwrap_or_default();
    let budget = params["dev_budget"].as_u64().unwrap_or(0) as u32;
    let sc = props::scenario_by_name(name, &params);
    pvcore::hang::set_context(v["property"].as_str().unwrap_or("?"), name, &params);
    pvcore::hang::start_monitor();
    let ex = pvcore::explore::replay(choices, budget, |c, e| sc(c, e));
    println!("scenario {} params {}", name, params);
    if let Some(smp) = &ex.sample {
        println!("events: {}", smp["events"]);
    }
    if ex.violations.is_empty() {
        println!("replay: no violation (property holds on this execution)");
        0
    } else {
        for v in &ex.violations {
            println!("VIOLATION property={} replay={}", v.property, path);
            println!("  rule={} witness={}", v.rule, v.witness);
            println!("  {}", v.detail);
        }
        1
    }
}
