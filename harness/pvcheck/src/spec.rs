//! Owned descriptions of user requests, their translation to poster's option builders, the packet
//! the MQTT 5 standard says such a request must produce (built with the reference codec), and
//! digests of results read through poster's public accessors only.

use poster::error::MqttError;
use poster::prelude::Either;
use poster::reason::*;
use poster::{
    AuthOpts, AuthRsp, ConnectOpts, ConnectRsp, DisconnectOpts, PublishData, PublishOpts, QoS,
    RetainHandling, SubscribeOpts, SubscribeRsp, SubscriptionOpts, UnsubscribeOpts,
    UnsubscribeRsp, UserProperties,
};
use pvcore::refcodec::*;
use std::time::Duration;

pub fn qos_of(q: u8) -> QoS {
    match q {
        0 => QoS::AtMostOnce,
        1 => QoS::AtLeastOnce,
        _ => QoS::ExactlyOnce,
    }
}
pub fn qos_num(q: QoS) -> u8 {
    match q {
        QoS::AtMostOnce => 0,
        QoS::AtLeastOnce => 1,
        QoS::ExactlyOnce => 2,
    }
}

#[derive(Clone, Debug, Default, PartialEq)]
pub struct ConnectSpec {
    pub client_id: Option<String>,
    pub keep_alive: Option<u16>,
    pub session_expiry: Option<u32>,
    pub receive_maximum: Option<u16>,
    pub maximum_packet_size: Option<u32>,
    pub topic_alias_maximum: Option<u16>,
    pub request_response_information: Option<bool>,
    pub request_problem_information: Option<bool>,
    pub auth_method: Option<String>,
    pub auth_data: Option<Vec<u8>>,
    pub user_props: Vec<(String, String)>,
    pub clean_start: Option<bool>,
    pub username: Option<String>,
    pub password: Option<Vec<u8>>,
    pub will_topic: Option<String>,
    pub will_payload: Option<Vec<u8>>,
    pub will_qos: Option<u8>,
    pub will_retain: Option<bool>,
    pub will_delay: Option<u32>,
    pub will_pfi: Option<bool>,
    pub will_expiry: Option<u32>,
    pub will_content_type: Option<String>,
    pub will_response_topic: Option<String>,
    pub will_correlation: Option<Vec<u8>>,
    pub will_user_props: Vec<(String, String)>,
}

impl ConnectSpec {
    pub fn opts(&self) -> ConnectOpts<'_> {
        let mut o = ConnectOpts::new();
        if let Some(v) = &self.client_id {
            o = o.client_identifier(v);
        }
        if let Some(v) = self.keep_alive {
            o = o.keep_alive(Duration::from_secs(v as u64));
        }
        if let Some(v) = self.session_expiry {
            o = o.session_expiry_interval(Duration::from_secs(v as u64));
        }
        if let Some(v) = self.receive_maximum {
            o = o.receive_maximum(v);
        }
        if let Some(v) = self.maximum_packet_size {
            o = o.maximum_packet_size(v);
        }
        if let Some(v) = self.topic_alias_maximum {
            o = o.topic_alias_maximum(v);
        }
        if let Some(v) = self.request_response_information {
            o = o.request_response_information(v);
        }
        if let Some(v) = self.request_problem_information {
            o = o.request_problem_information(v);
        }
        if let Some(v) = &self.auth_method {
            o = o.authentication_method(v);
        }
        if let Some(v) = &self.auth_data {
            o = o.authentication_data(v);
        }
        for (k, v) in &self.user_props {
            o = o.user_property((k, v));
        }
        if let Some(v) = self.clean_start {
            o = o.clean_start(v);
        }
        if let Some(v) = &self.username {
            o = o.username(v);
        }
        if let Some(v) = &self.password {
            o = o.password(v);
        }
        if let Some(v) = &self.will_topic {
            o = o.will_topic(v);
        }
        if let Some(v) = &self.will_payload {
            o = o.will_payload(v);
        }
        if let Some(v) = self.will_qos {
            o = o.will_qos(qos_of(v));
        }
        if let Some(v) = self.will_retain {
            o = o.will_retain(v);
        }
        if let Some(v) = self.will_delay {
            o = o.will_delay_interval(Duration::from_secs(v as u64));
        }
        if let Some(v) = self.will_pfi {
            o = o.will_payload_format_indicator(v);
        }
        if let Some(v) = self.will_expiry {
            o = o.will_message_expiry_interval(Duration::from_secs(v as u64));
        }
        if let Some(v) = &self.will_content_type {
            o = o.will_content_type(v);
        }
        if let Some(v) = &self.will_response_topic {
            o = o.will_response_topic(v);
        }
        if let Some(v) = &self.will_correlation {
            o = o.will_correlation_data(v);
        }
        for (k, v) in &self.will_user_props {
            o = o.will_user_property((k, v));
        }
        o
    }

    /// None = the request must be refused before anything is written.
    pub fn expected(&self) -> Option<CPacket> {
        if self.auth_data.is_some() && self.auth_method.is_none() {
            return None;
        }
        let mut props = vec![];
        if let Some(v) = self.session_expiry {
            props.push(Prop::u32(P_SESSION_EXPIRY, v));
        }
        if let Some(v) = self.receive_maximum {
            props.push(Prop::u16(P_RECEIVE_MAXIMUM, v));
        }
        if let Some(v) = self.maximum_packet_size {
            props.push(Prop::u32(P_MAXIMUM_PACKET_SIZE, v));
        }
        if let Some(v) = self.topic_alias_maximum {
            props.push(Prop::u16(P_TOPIC_ALIAS_MAXIMUM, v));
        }
        if let Some(v) = self.request_response_information {
            props.push(Prop::byte(P_REQUEST_RESPONSE_INFO, v as u8));
        }
        if let Some(v) = self.request_problem_information {
            props.push(Prop::byte(P_REQUEST_PROBLEM_INFO, v as u8));
        }
        if let Some(v) = &self.auth_method {
            props.push(Prop::str(P_AUTH_METHOD, v));
        }
        if let Some(v) = &self.auth_data {
            props.push(Prop::bin(P_AUTH_DATA, v));
        }
        for (k, v) in &self.user_props {
            props.push(Prop::user(k, v));
        }
        let will = match (&self.will_topic, &self.will_payload) {
            (Some(t), Some(p)) => {
                let mut wp = vec![];
                if let Some(v) = self.will_delay {
                    wp.push(Prop::u32(P_WILL_DELAY, v));
                }
                if let Some(v) = self.will_pfi {
                    wp.push(Prop::byte(P_PAYLOAD_FORMAT, v as u8));
                }
                if let Some(v) = self.will_expiry {
                    wp.push(Prop::u32(P_MESSAGE_EXPIRY, v));
                }
                if let Some(v) = &self.will_content_type {
                    wp.push(Prop::str(P_CONTENT_TYPE, v));
                }
                if let Some(v) = &self.will_response_topic {
                    wp.push(Prop::str(P_RESPONSE_TOPIC, v));
                }
                if let Some(v) = &self.will_correlation {
                    wp.push(Prop::bin(P_CORRELATION_DATA, v));
                }
                for (k, v) in &self.will_user_props {
                    wp.push(Prop::user(k, v));
                }
                Some(Will {
                    qos: self.will_qos.unwrap_or(0),
                    retain: self.will_retain.unwrap_or(false),
                    props: wp,
                    topic: t.clone(),
                    payload: p.clone(),
                })
            }
            _ => None,
        };
        Some(CPacket::Connect(Connect {
            clean_start: self.clean_start.unwrap_or(false),
            keep_alive: self.keep_alive.unwrap_or(0),
            props,
            client_id: self.client_id.clone().unwrap_or_default(),
            will,
            username: self.username.clone(),
            password: self.password.clone(),
        }))
    }
}

#[derive(Clone, Debug, Default, PartialEq)]
pub struct AuthSpec {
    pub reason: Option<u8>,
    pub method: Option<String>,
    pub data: Option<Vec<u8>>,
    pub user_props: Vec<(String, String)>,
}

impl AuthSpec {
    pub fn opts(&self) -> AuthOpts<'_> {
        let mut o = AuthOpts::new();
        if let Some(r) = self.reason {
            o = o.reason(match r {
                0 => AuthReason::Success,
                0x18 => AuthReason::ContinueAuthentication,
                _ => AuthReason::ReAuthenticate,
            });
        }
        if let Some(v) = &self.method {
            o = o.authentication_method(v);
        }
        if let Some(v) = &self.data {
            o = o.authentication_data(v);
        }
        for (k, v) in &self.user_props {
            o = o.user_property((k, v));
        }
        o
    }
    pub fn expected(&self) -> Option<CPacket> {
        let plain = self.reason.unwrap_or(0) == 0
            && self.method.is_none()
            && self.data.is_none()
            && self.user_props.is_empty();
        if plain {
            return Some(CPacket::Auth(Auth {
                reason: 0,
                props: vec![],
            }));
        }
        // extended authentication needs both method and data (property statement)
        if self.method.is_none() || self.data.is_none() {
            return None;
        }
        let mut props = vec![];
        props.push(Prop::str(P_AUTH_METHOD, self.method.as_ref().unwrap()));
        props.push(Prop::bin(P_AUTH_DATA, self.data.as_ref().unwrap()));
        for (k, v) in &self.user_props {
            props.push(Prop::user(k, v));
        }
        Some(CPacket::Auth(Auth {
            reason: self.reason.unwrap_or(0),
            props,
        }))
    }
}

#[derive(Clone, Debug, Default, PartialEq)]
pub struct PublishSpec {
    pub qos: Option<u8>,
    pub retain: Option<bool>,
    pub topic: Option<String>,
    pub payload: Option<Vec<u8>>,
    pub pfi: Option<bool>,
    pub topic_alias: Option<u16>,
    pub expiry: Option<u32>,
    pub correlation: Option<Vec<u8>>,
    pub response_topic: Option<String>,
    pub content_type: Option<String>,
    pub user_props: Vec<(String, String)>,
}

impl PublishSpec {
    pub fn simple(qos: u8, topic: &str, payload: &[u8]) -> Self {
        PublishSpec {
            qos: Some(qos),
            topic: Some(topic.to_string()),
            payload: Some(payload.to_vec()),
            ..Default::default()
        }
    }
    pub fn qos(&self) -> u8 {
        self.qos.unwrap_or(0)
    }
    pub fn opts(&self) -> PublishOpts<'_> {
        let mut o = PublishOpts::new();
        if let Some(v) = self.qos {
            o = o.qos(qos_of(v));
        }
        if let Some(v) = self.retain {
            o = o.retain(v);
        }
        if let Some(v) = &self.topic {
            o = o.topic_name(v);
        }
        if let Some(v) = &self.payload {
            o = o.payload(v);
        }
        if let Some(v) = self.pfi {
            o = o.payload_format_indicator(v);
        }
        if let Some(v) = self.topic_alias {
            o = o.topic_alias(v);
        }
        if let Some(v) = self.expiry {
            o = o.message_expiry_interval(Duration::from_secs(v as u64));
        }
        if let Some(v) = &self.correlation {
            o = o.correlation_data(v);
        }
        if let Some(v) = &self.response_topic {
            o = o.response_topic(v);
        }
        if let Some(v) = &self.content_type {
            o = o.content_type(v);
        }
        for (k, v) in &self.user_props {
            o = o.user_property((k, v));
        }
        o
    }
    /// Expected PUBLISH with the given packet id (ignored for QoS 0). None = must be refused.
    pub fn expected(&self, pid: u16) -> Option<CPacket> {
        let topic = self.topic.clone()?;
        let mut props = vec![];
        if let Some(v) = self.pfi {
            props.push(Prop::byte(P_PAYLOAD_FORMAT, v as u8));
        }
        if let Some(v) = self.topic_alias {
            props.push(Prop::u16(P_TOPIC_ALIAS, v));
        }
        if let Some(v) = self.expiry {
            props.push(Prop::u32(P_MESSAGE_EXPIRY, v));
        }
        if let Some(v) = &self.correlation {
            props.push(Prop::bin(P_CORRELATION_DATA, v));
        }
        if let Some(v) = &self.response_topic {
            props.push(Prop::str(P_RESPONSE_TOPIC, v));
        }
        if let Some(v) = &self.content_type {
            props.push(Prop::str(P_CONTENT_TYPE, v));
        }
        for (k, v) in &self.user_props {
            props.push(Prop::user(k, v));
        }
        let qos = self.qos();
        Some(CPacket::Publish(Publish {
            dup: false,
            qos,
            retain: self.retain.unwrap_or(false),
            topic,
            pid: if qos > 0 { Some(pid) } else { None },
            props,
            payload: self.payload.clone().unwrap_or_default(),
        }))
    }
}

#[derive(Clone, Debug, PartialEq)]
pub struct FilterSpec {
    pub filter: String,
    pub qos: Option<u8>,
    pub no_local: Option<bool>,
    pub retain_as_published: Option<bool>,
    pub retain_handling: Option<u8>,
}

impl FilterSpec {
    pub fn plain(f: &str) -> Self {
        FilterSpec {
            filter: f.to_string(),
            qos: None,
            no_local: None,
            retain_as_published: None,
            retain_handling: None,
        }
    }
}

#[derive(Clone, Debug, Default, PartialEq)]
pub struct SubscribeSpec {
    pub filters: Vec<FilterSpec>,
    pub user_props: Vec<(String, String)>,
}

impl SubscribeSpec {
    pub fn simple(f: &str) -> Self {
        SubscribeSpec {
            filters: vec![FilterSpec::plain(f)],
            user_props: vec![],
        }
    }
    pub fn opts(&self) -> SubscribeOpts<'_> {
        let mut o = SubscribeOpts::new();
        for f in &self.filters {
            let mut s = SubscriptionOpts::new();
            if let Some(q) = f.qos {
                s = s.maximum_qos(qos_of(q));
            }
            if let Some(v) = f.no_local {
                s = s.no_local(v);
            }
            if let Some(v) = f.retain_as_published {
                s = s.retain_as_published(v);
            }
            if let Some(v) = f.retain_handling {
                s = s.retain_handling(match v {
                    0 => RetainHandling::SendOnSubscribe,
                    1 => RetainHandling::SendIfNoSubscription,
                    _ => RetainHandling::NoSendOnSubscribe,
                });
            }
            o = o.subscription(&f.filter, s);
        }
        for (k, v) in &self.user_props {
            o = o.user_property((k, v));
        }
        o
    }
    pub fn expected(&self, pid: u16, sub_id: u32) -> Option<CPacket> {
        if self.filters.is_empty() {
            return None;
        }
        let mut props = vec![Prop::var(P_SUBSCRIPTION_ID, sub_id)];
        for (k, v) in &self.user_props {
            props.push(Prop::user(k, v));
        }
        Some(CPacket::Subscribe(Subscribe {
            pid,
            props,
            filters: self
                .filters
                .iter()
                .map(|f| SubFilter {
                    filter: f.filter.clone(),
                    // documented default of SubscriptionOpts: maximum QoS 2
                    qos: f.qos.unwrap_or(2),
                    no_local: f.no_local.unwrap_or(false),
                    retain_as_published: f.retain_as_published.unwrap_or(false),
                    retain_handling: f.retain_handling.unwrap_or(0),
                })
                .collect(),
        }))
    }
}

#[derive(Clone, Debug, Default, PartialEq)]
pub struct UnsubscribeSpec {
    pub filters: Vec<String>,
    pub user_props: Vec<(String, String)>,
}

impl UnsubscribeSpec {
    pub fn simple(f: &str) -> Self {
        UnsubscribeSpec {
            filters: vec![f.to_string()],
            user_props: vec![],
        }
    }
    pub fn opts(&self) -> UnsubscribeOpts<'_> {
        let mut o = UnsubscribeOpts::new();
        for f in &self.filters {
            o = o.topic_filter(f);
        }
        for (k, v) in &self.user_props {
            o = o.user_property((k, v));
        }
        o
    }
    pub fn expected(&self, pid: u16) -> Option<CPacket> {
        if self.filters.is_empty() {
            return None;
        }
        Some(CPacket::Unsubscribe(Unsubscribe {
            pid,
            props: self
                .user_props
                .iter()
                .map(|(k, v)| Prop::user(k, v))
                .collect(),
            filters: self.filters.clone(),
        }))
    }
}

#[derive(Clone, Debug, Default, PartialEq)]
pub struct DisconnectSpec {
    pub reason: Option<u8>,
    pub session_expiry: Option<u32>,
    pub reason_string: Option<String>,
    pub user_props: Vec<(String, String)>,
}

pub fn disconnect_reason(r: u8) -> DisconnectReason {
    use DisconnectReason::*;
    match r {
        0x00 => Success,
        0x04 => DisconnectWithWillMessage,
        0x80 => UnspecifiedError,
        0x81 => MalformedPacket,
        0x82 => ProtocolError,
        0x83 => ImplementationSpecificError,
        0x87 => NotAuthorized,
        0x89 => ServerBusy,
        0x8b => ServerShuttingDown,
        0x8d => KeepAliveTimeout,
        0x8e => SessionTakenOver,
        0x8f => TopicFilterInvalid,
        0x90 => TopicNameInvalid,
        0x93 => ReceiveMaximumExcceeded,
        0x94 => TopicAliasInvalid,
        0x95 => PacketTooLarge,
        0x96 => MessageRateTooHigh,
        0x97 => QuotaExceeded,
        0x98 => AdministrativeAction,
        0x99 => PayloadFormatInvalid,
        0x9a => RetainNotSupported,
        0x9b => QoSNotSupported,
        0x9c => UseAnotherServer,
        0x9d => ServerMoved,
        0x9e => SharedSubscriptionsNotSupported,
        0x9f => ConnectionRateExceeded,
        0xa0 => MaximumConnectTime,
        0xa1 => SubscriptionIdentifiersNotSupported,
        0xa2 => WildcardSubscriptionsNotSupported,
        _ => panic!("harness: not a disconnect reason {:#x}", r),
    }
}

impl DisconnectSpec {
    pub fn opts(&self) -> DisconnectOpts<'_> {
        let mut o = DisconnectOpts::new();
        if let Some(r) = self.reason {
            o = o.reason(disconnect_reason(r));
        }
        if let Some(v) = self.session_expiry {
            o = o.session_expiry_interval(Duration::from_secs(v as u64));
        }
        if let Some(v) = &self.reason_string {
            o = o.reason_string(v);
        }
        for (k, v) in &self.user_props {
            o = o.user_property((k, v));
        }
        o
    }
    pub fn expected(&self) -> Option<CPacket> {
        let mut props = vec![];
        if let Some(v) = self.session_expiry {
            props.push(Prop::u32(P_SESSION_EXPIRY, v));
        }
        if let Some(v) = &self.reason_string {
            props.push(Prop::str(P_REASON_STRING, v));
        }
        for (k, v) in &self.user_props {
            props.push(Prop::user(k, v));
        }
        Some(CPacket::Disconnect(Disconnect {
            reason: self.reason.unwrap_or(0),
            props,
        }))
    }
}

#[derive(Clone, Debug, PartialEq)]
pub enum OpSpec {
    Publish(PublishSpec),
    Subscribe(SubscribeSpec),
    Unsubscribe(UnsubscribeSpec),
    Ping,
    Disconnect(DisconnectSpec),
}

impl OpSpec {
    pub fn brief(&self) -> String {
        match self {
            OpSpec::Publish(p) => format!(
                "publish(q{}{},{},{})",
                p.qos(),
                if p.retain == Some(true) { ",ret" } else { "" },
                p.topic.as_deref().unwrap_or("<none>"),
                brief_bytes(p.payload.as_deref().unwrap_or(&[]))
            ),
            OpSpec::Subscribe(s) => format!(
                "subscribe({})",
                s.filters
                    .iter()
                    .map(|f| f.filter.clone())
                    .collect::<Vec<_>>()
                    .join("+")
            ),
            OpSpec::Unsubscribe(s) => format!("unsubscribe({})", s.filters.join("+")),
            OpSpec::Ping => "ping".into(),
            OpSpec::Disconnect(d) => format!("disconnect(r{:#x})", d.reason.unwrap_or(0)),
        }
    }
}

// ----------------------------------------------------------------------------------------------
// Normalisation of decoded client packets for comparison: the standard does not order properties,
// so non-user properties are compared as a sorted set; user properties keep their relative order.

pub fn normalise_props(props: &[Prop]) -> Vec<Prop> {
    let mut others: Vec<Prop> = props.iter().filter(|p| p.id != 38).cloned().collect();
    others.sort();
    let users: Vec<Prop> = props.iter().filter(|p| p.id == 38).cloned().collect();
    others.into_iter().chain(users).collect()
}

pub fn normalise(p: &CPacket) -> CPacket {
    let mut p = p.clone();
    match &mut p {
        CPacket::Connect(c) => {
            c.props = normalise_props(&c.props);
            if let Some(w) = &mut c.will {
                w.props = normalise_props(&w.props);
            }
        }
        CPacket::Publish(x) => x.props = normalise_props(&x.props),
        CPacket::Puback(a) | CPacket::Pubrec(a) | CPacket::Pubrel(a) | CPacket::Pubcomp(a) => {
            a.props = normalise_props(&a.props)
        }
        CPacket::Subscribe(s) => s.props = normalise_props(&s.props),
        CPacket::Unsubscribe(s) => s.props = normalise_props(&s.props),
        CPacket::Disconnect(d) => d.props = normalise_props(&d.props),
        CPacket::Auth(a) => a.props = normalise_props(&a.props),
        CPacket::Pingreq => {}
    }
    p
}

// ----------------------------------------------------------------------------------------------
// Digests through public accessors

fn bytes_dig(b: &[u8]) -> String {
    if b.len() <= 24 {
        format!("{:02x?}", b)
    } else {
        let mut h = 0xcbf29ce484222325u64;
        pvcore::explore::fnv(&mut h, b);
        format!("[{}B#{:016x}]", b.len(), h)
    }
}
fn str_dig(s: &str) -> String {
    if s.len() <= 32 {
        format!("{:?}", s)
    } else {
        format!("str{}", bytes_dig(s.as_bytes()))
    }
}
fn ostr_dig(s: Option<&str>) -> String {
    match s {
        None => "-".into(),
        Some(s) => str_dig(s),
    }
}
fn obin_dig(s: Option<&[u8]>) -> String {
    match s {
        None => "-".into(),
        Some(s) => bytes_dig(s),
    }
}

pub fn user_props_dig(u: &UserProperties) -> String {
    let mut s = String::from("[");
    let mut n = 0;
    for (k, v) in u.iter() {
        s.push_str(&format!("{}={},", str_dig(k), str_dig(v)));
        n += 1;
    }
    std::hint::black_box(format!("{:?}", u));
    // cross-check the other accessors against iter()
    let keys: Vec<&str> = u.keys().collect();
    let vals: Vec<&str> = u.values().collect();
    let mut consistent = u.len() == n && keys.len() == n && vals.len() == n && u.is_empty() == (n == 0);
    for (i, (k, v)) in u.iter().enumerate() {
        consistent &= keys[i] == k && vals[i] == v && u.contains_key(k);
        let same_key: Vec<&str> = u.iter().filter(|(kk, _)| *kk == k).map(|(_, v)| v).collect();
        let got: Vec<&str> = u.get(k).collect();
        consistent &= same_key == got;
    }
    // keys that were NOT sent: fragments of the keys that were, the empty string, a key with a tail
    let mut probes: Vec<String> = vec![String::new(), "\u{0}".into()];
    for k in &keys {
        let cs: Vec<char> = k.chars().collect();
        if cs.len() > 1 {
            probes.push(cs[..cs.len() - 1].iter().collect());
            probes.push(cs[1..].iter().collect());
        }
        probes.push(format!("{}x", k));
        probes.push(k.to_uppercase());
    }
    for pr in probes {
        let present = keys.iter().any(|k| *k == pr.as_str());
        consistent &= u.contains_key(&pr) == present;
        consistent &= (u.get(&pr).count() > 0) == present;
    }
    s.push(']');
    if !consistent {
        s.push_str("!INCONSISTENT-ACCESSORS");
    }
    s
}

/// expected counterpart of `user_props_dig`, from reference properties
pub fn exp_user_props(props: &[Prop]) -> String {
    let mut s = String::from("[");
    for p in props {
        if let PVal::Pair(k, v) = &p.val {
            s.push_str(&format!("{}={},", str_dig(k), str_dig(v)));
        }
    }
    s.push(']');
    s
}

fn find<'a>(props: &'a [Prop], id: u8) -> Option<&'a PVal> {
    // a repeated non-user property is a protocol error; generators never produce it
    props.iter().find(|p| p.id == id).map(|p| &p.val)
}
fn exp_str(props: &[Prop], id: u8) -> String {
    match find(props, id) {
        Some(PVal::Str(s)) => str_dig(s),
        _ => "-".into(),
    }
}
fn exp_bin(props: &[Prop], id: u8) -> String {
    match find(props, id) {
        Some(PVal::Bin(s)) => bytes_dig(s),
        _ => "-".into(),
    }
}

pub fn connect_rsp_dig(r: &ConnectRsp) -> String {
    format!(
        "ConnectRsp{{sp={} reason={:#x} wild={} subid={} shared={} maxqos={} retain={} ska={:?} rm={} tam={} sei={:?} mps={:?} aci={} rs={} ri={} sr={} am={} ad={} up={}}}",
        r.session_present(),
        r.reason() as u8,
        r.wildcard_subscription_available(),
        r.subscription_identifier_available(),
        r.shared_subscription_available(),
        qos_num(r.maximum_qos()),
        r.retain_available(),
        r.server_keep_alive().map(|d| d.as_secs()),
        r.receive_maximum(),
        r.topic_alias_maximum(),
        r.session_expiry_interval().map(|d| d.as_secs()),
        r.maximum_packet_size(),
        ostr_dig(r.assigned_client_identifier()),
        ostr_dig(r.reason_string()),
        ostr_dig(r.response_information()),
        ostr_dig(r.server_reference()),
        ostr_dig(r.authentication_method()),
        obin_dig(r.authentication_data()),
        user_props_dig(r.user_properties()),
    )
}

fn pbyte(props: &[Prop], id: u8, default: u8) -> u8 {
    match find(props, id) {
        Some(PVal::Byte(b)) => *b,
        _ => default,
    }
}
fn pu16(props: &[Prop], id: u8) -> Option<u16> {
    match find(props, id) {
        Some(PVal::U16(b)) => Some(*b),
        _ => None,
    }
}
fn pu32(props: &[Prop], id: u8) -> Option<u32> {
    match find(props, id) {
        Some(PVal::U32(b)) => Some(*b),
        _ => None,
    }
}

/// What connect()/authorize() must return for this CONNACK (MQTT 5 defaults for absent properties).
pub fn exp_connack_dig(session_present: bool, reason: u8, props: &[Prop]) -> String {
    if reason >= 0x80 {
        return format!(
            "Err:ConnectError{{reason={:#x} rs={} sr={} up={}}}",
            reason,
            exp_str(props, P_REASON_STRING),
            exp_str(props, P_SERVER_REFERENCE),
            exp_user_props(props)
        );
    }
    format!(
        "ConnectRsp{{sp={} reason={:#x} wild={} subid={} shared={} maxqos={} retain={} ska={:?} rm={} tam={} sei={:?} mps={:?} aci={} rs={} ri={} sr={} am={} ad={} up={}}}",
        session_present,
        reason,
        pbyte(props, P_WILDCARD_SUB_AVAILABLE, 1) != 0,
        pbyte(props, P_SUB_ID_AVAILABLE, 1) != 0,
        pbyte(props, P_SHARED_SUB_AVAILABLE, 1) != 0,
        pbyte(props, P_MAXIMUM_QOS, 2),
        pbyte(props, P_RETAIN_AVAILABLE, 1) != 0,
        pu16(props, P_SERVER_KEEP_ALIVE).map(|v| v as u64),
        pu16(props, P_RECEIVE_MAXIMUM).unwrap_or(65535),
        pu16(props, P_TOPIC_ALIAS_MAXIMUM).unwrap_or(0),
        pu32(props, P_SESSION_EXPIRY).map(|v| v as u64),
        pu32(props, P_MAXIMUM_PACKET_SIZE),
        exp_str(props, P_ASSIGNED_CLIENT_ID),
        exp_str(props, P_REASON_STRING),
        exp_str(props, P_RESPONSE_INFO),
        exp_str(props, P_SERVER_REFERENCE),
        exp_str(props, P_AUTH_METHOD),
        exp_bin(props, P_AUTH_DATA),
        exp_user_props(props),
    )
}

pub fn auth_rsp_dig(r: &AuthRsp) -> String {
    format!(
        "AuthRsp{{reason={:#x} rs={} am={} ad={} up={}}}",
        r.reason() as u8,
        ostr_dig(r.reason_string()),
        ostr_dig(r.authentication_method()),
        obin_dig(r.authentication_data()),
        user_props_dig(r.user_properties())
    )
}
pub fn exp_auth_dig(reason: u8, props: &[Prop]) -> String {
    format!(
        "AuthRsp{{reason={:#x} rs={} am={} ad={} up={}}}",
        reason,
        exp_str(props, P_REASON_STRING),
        exp_str(props, P_AUTH_METHOD),
        exp_bin(props, P_AUTH_DATA),
        exp_user_props(props)
    )
}

pub fn connect_result_dig(r: &Result<Either<ConnectRsp, AuthRsp>, MqttError>) -> String {
    match r {
        Ok(Either::Left(c)) => connect_rsp_dig(c),
        Ok(Either::Right(a)) => auth_rsp_dig(a),
        Err(e) => err_dig(e),
    }
}

pub fn err_dig(e: &MqttError) -> String {
    // An error the client hands out is also printed by its caller (the README does `{}` on run()'s
    // result): Display, Debug and source() are library code fed with what the server sent, and run
    // here inside the poll of the task that received the error, i.e. under the panic guard.
    {
        use std::error::Error;
        let shown = format!("{} | {:?}", e, e);
        let mut src = e.source();
        let mut depth = 0;
        while let Some(s) = src {
            let _ = format!("{} | {:?}", s, s);
            src = s.source();
            depth += 1;
            if depth > 8 {
                break;
            }
        }
        std::hint::black_box(shown);
    }
    match e {
        MqttError::InternalError(_) => "Err:InternalError".into(),
        MqttError::ConnectError(c) => format!(
            "Err:ConnectError{{reason={:#x} rs={} sr={} up={}}}",
            c.reason() as u8,
            ostr_dig(c.reason_string()),
            ostr_dig(c.server_reference()),
            user_props_dig(c.user_properties())
        ),
        MqttError::AuthError(a) => format!(
            "Err:AuthError{{reason={:#x} rs={} up={}}}",
            a.reason() as u8,
            ostr_dig(a.reason_string()),
            user_props_dig(a.user_properties())
        ),
        MqttError::PubackError(a) => format!(
            "Err:PubackError{{reason={:#x} rs={} up={}}}",
            a.reason() as u8,
            ostr_dig(a.reason_string()),
            user_props_dig(a.user_properties())
        ),
        MqttError::PubrecError(a) => format!(
            "Err:PubrecError{{reason={:#x} rs={} up={}}}",
            a.reason() as u8,
            ostr_dig(a.reason_string()),
            user_props_dig(a.user_properties())
        ),
        MqttError::PubcompError(a) => format!(
            "Err:PubcompError{{reason={:#x} rs={} up={}}}",
            a.reason() as u8,
            ostr_dig(a.reason_string()),
            user_props_dig(a.user_properties())
        ),
        MqttError::SocketClosed(_) => "Err:SocketClosed".into(),
        MqttError::HandleClosed(_) => "Err:HandleClosed".into(),
        MqttError::ContextExited(_) => "Err:ContextExited".into(),
        MqttError::Disconnected(d) => format!(
            "Err:Disconnected{{reason={:#x} sei={} rs={} sr={} up={}}}",
            d.reason() as u8,
            d.session_expiry_interval().as_secs(),
            ostr_dig(d.reason_string()),
            ostr_dig(d.server_reference()),
            user_props_dig(d.user_properties())
        ),
        MqttError::CodecError(_) => "Err:CodecError".into(),
        MqttError::QuotaExceeded(_) => "Err:QuotaExceeded".into(),
        MqttError::MaximumPacketSizeExceeded(_) => "Err:MaximumPacketSizeExceeded".into(),
        // (a variant this harness does not know: the build must not depend on the set being closed)
        #[allow(unreachable_patterns)]
        other => format!("Err:Other({:?})", other).chars().take(60).collect(),
    }
}

pub fn exp_ack_err(kind: &str, reason: u8, props: &[Prop]) -> String {
    format!(
        "Err:{}{{reason={:#x} rs={} up={}}}",
        kind,
        reason,
        exp_str(props, P_REASON_STRING),
        exp_user_props(props)
    )
}
pub fn exp_disconnected(reason: u8, props: &[Prop]) -> String {
    format!(
        "Err:Disconnected{{reason={:#x} sei={} rs={} sr={} up={}}}",
        reason,
        0,
        exp_str(props, P_REASON_STRING),
        exp_str(props, P_SERVER_REFERENCE),
        exp_user_props(props)
    )
}

pub fn unit_result_dig(r: &Result<(), MqttError>) -> String {
    match r {
        Ok(()) => "Ok".into(),
        Err(e) => err_dig(e),
    }
}

pub fn suback_dig(r: &SubscribeRsp) -> String {
    format!(
        "SubscribeRsp{{rs={} up={} payload={:x?}}}",
        ostr_dig(r.reason_string()),
        user_props_dig(r.user_properties()),
        r.payload().iter().map(|x| *x as u8).collect::<Vec<u8>>()
    )
}
pub fn exp_suback_dig(props: &[Prop], reasons: &[u8]) -> String {
    format!(
        "SubscribeRsp{{rs={} up={} payload={:x?}}}",
        exp_str(props, P_REASON_STRING),
        exp_user_props(props),
        reasons
    )
}
pub fn unsuback_dig(r: &UnsubscribeRsp) -> String {
    format!(
        "UnsubscribeRsp{{rs={} up={} payload={:x?}}}",
        ostr_dig(r.reason_string()),
        user_props_dig(r.user_properties()),
        r.payload().iter().map(|x| *x as u8).collect::<Vec<u8>>()
    )
}
pub fn exp_unsuback_dig(props: &[Prop], reasons: &[u8]) -> String {
    format!(
        "UnsubscribeRsp{{rs={} up={} payload={:x?}}}",
        exp_str(props, P_REASON_STRING),
        exp_user_props(props),
        reasons
    )
}

pub fn publish_data_dig(d: &PublishData) -> String {
    format!(
        "Msg{{dup={} retain={} qos={} topic={} pfi={:?} alias={:?} mei={:?} cd={} rt={} ct={} up={} payload={}}}",
        d.dup(),
        d.retain(),
        qos_num(d.qos()),
        str_dig(d.topic_name()),
        d.payload_format_indicator(),
        d.topic_alias(),
        d.message_expiry_interval().map(|x| x.as_secs()),
        obin_dig(d.correlation_data()),
        ostr_dig(d.response_topic()),
        ostr_dig(d.content_type()),
        user_props_dig(d.user_properties()),
        bytes_dig(d.payload())
    )
}
pub fn exp_publish_data_dig(
    dup: bool,
    qos: u8,
    retain: bool,
    topic: &str,
    props: &[Prop],
    payload: &[u8],
) -> String {
    format!(
        "Msg{{dup={} retain={} qos={} topic={} pfi={:?} alias={:?} mei={:?} cd={} rt={} ct={} up={} payload={}}}",
        dup,
        retain,
        qos,
        str_dig(topic),
        find(props, P_PAYLOAD_FORMAT).map(|v| matches!(v, PVal::Byte(1))),
        pu16(props, P_TOPIC_ALIAS),
        pu32(props, P_MESSAGE_EXPIRY).map(|v| v as u64),
        exp_bin(props, P_CORRELATION_DATA),
        exp_str(props, P_RESPONSE_TOPIC),
        exp_str(props, P_CONTENT_TYPE),
        exp_user_props(props),
        bytes_dig(payload)
    )
}
