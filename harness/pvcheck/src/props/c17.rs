//! C17 - resuming a session re-sends exactly the unfinished outbound handshakes.

use super::common::*;
use super::*;
use crate::model::*;
use crate::spec::*;
use crate::sys::*;
use crate::world::CtxCmd;
use pvcore::refcodec::*;

pub fn check(tier: Tier) -> Check {
    let mut parts = vec![];
    for (expiry, ago) in [
        (0u64, 10u64),
        (1000, 10),
        (1000, 100_000),
        (u32::MAX as u64, 10),
        (u32::MAX as u64, 100_000),
    ] {
        parts.push(Part::new(
            "C17/resume",
            json!({"depth": tier.pick(6, 7), "expiry": expiry, "secs_ago": ago}),
            0,
            tier.pick(15, 300),
        ));
    }
    // magnitudes: intervals and elapsed times of weeks and decades (seconds vs milliseconds vs u32)
    for (expiry, ago) in [
        (10_368_000u64, 5_184_000u64), // 120 days, resumed after 60
        (10_368_000, 10_500_000),      // ... after 121.5: expired
        (4_294_968, 4_294_000),        // just above 2^32 milliseconds
        (4_294_967_294, 4_000_000_000),
        (4_294_967_294, 5_000_000_000), // elapsed beyond u32: expired
        (86_400, 3_000),
        // exactly the interval: elapsed >= interval holds however long the run takes, so "expired" is
        // the only possible answer (one second less would depend on the real clock and is not used)
        (1000, 1000),
        (1, 1),
    ] {
        parts.push(Part::new(
            "C17/resume",
            json!({"depth": tier.pick(3, 5), "expiry": expiry, "secs_ago": ago}),
            0,
            tier.pick(15, 300),
        ));
    }
    // the broker's Session Expiry Interval (CONNACK) overrides the requested one
    for (expiry, cexp, ago) in [(3600u64, 30u64, 60u64), (0, 1000, 10), (30, 3600, 60), (1000, 0, 10)] {
        parts.push(Part::new(
            "C17/resume",
            json!({"depth": tier.pick(4, 6), "expiry": expiry, "connack_expiry": cexp, "secs_ago": ago}),
            0,
            tier.pick(15, 300),
        ));
    }
    // delayed and abandoned operation futures in the history (deviations): e.g. the connection is lost
    // after the PUBREC was processed but before the QoS 2 future got to queue its PUBREL
    for (expiry, ago) in [(1000u64, 10u64), (u32::MAX as u64, 100_000), (0, 10)] {
        parts.push(Part::new(
            "C17/resume",
            json!({"depth": tier.pick(4, 5), "expiry": expiry, "secs_ago": ago, "sched": true}),
            tier.pick(1, 2),
            tier.pick(15, 300),
        ));
    }
    // the new connection announces a Receive Maximum smaller than the number of unfinished handshakes
    for r2 in [1u64, 2] {
        parts.push(Part::new(
            "C17/resume",
            json!({"depth": tier.pick(5, 6), "expiry": 1000, "secs_ago": 10, "r2": r2}),
            0,
            tier.pick(15, 300),
        ));
    }
    // publishes carrying every option (RETAIN, all properties, a 70 000-byte payload); both connections
    // opened by extended authentication
    parts.push(Part::new("C17/resume", json!({"depth": tier.pick(4, 5), "expiry": 1000, "secs_ago": 10, "rich": true}), 0, tier.pick(15, 300)));
    parts.push(Part::new("C17/resume", json!({"depth": tier.pick(4, 5), "expiry": 1000, "secs_ago": 10, "auth": true}), 0, tier.pick(15, 300)));
    parts.push(Part::new("C17/resume", json!({"depth": tier.pick(3, 4), "expiry": 0, "secs_ago": 10, "auth": true}), 0, tier.pick(15, 300)));
    // the first connection ends by the user's DISCONNECT, the server's, or a read error
    for end in ["disconnect", "server", "error"] {
        parts.push(Part::new(
            "C17/resume",
            json!({"depth": tier.pick(4, 6), "expiry": 1000, "secs_ago": 10, "end": end}),
            0,
            tier.pick(15, 300),
        ));
    }
    // the re-sent packets through a transport that takes them in pieces (gathering vectored writes)
    parts.push(Part::new("C17/resume", json!({"depth": tier.pick(4, 5), "expiry": 1000, "secs_ago": 10, "wmode": "explore"}), tier.pick(1, 2), tier.pick(15, 300)));
    // the new connection announces a Maximum Packet Size below the packets to re-send
    parts.push(Part::new("C17/resume", json!({"depth": tier.pick(4, 5), "expiry": 1000, "secs_ago": 10, "m2": 12}), 0, tier.pick(15, 300)));
    // many unfinished handshakes at the loss (17 .. 300)
    parts.push(Part::new("C17/bulk", json!({}), 0, 120));
    // two losses in a row: the session is resumed on a second and then on a third connection
    parts.push(Part::new("C17/resume", json!({"depth": tier.pick(4, 5), "expiry": 1000, "secs_ago": 10, "twice": true}), 0, tier.pick(15, 300)));
    parts.push(Part::new("C17/resume", json!({"depth": tier.pick(4, 5), "expiry": 1000, "secs_ago": 10, "twice": true, "r": 65535}), 0, tier.pick(15, 300)));
    // ... with delayed and abandoned publish futures in the history (deviations)
    parts.push(Part::new("C17/resume", json!({"depth": tier.pick(3, 4), "expiry": 1000, "secs_ago": 10, "twice": true, "sched": true}), tier.pick(1, 2), tier.pick(15, 300)));
    // identifier flavour: the counters start next to a boundary of their encodings (DESIGN 4)
    for ids in [[65534u64, 1u64], [255, 127]] {
        parts.push(Part::new(
            "C17/resume",
            json!({"depth": tier.pick(5, 6), "expiry": 1000, "secs_ago": 10, "ids": ids}),
            0,
            tier.pick(15, 300),
        ));
    }
    // value flavour (DESIGN 4): the same exploration with requests / inbound messages of unusual content
    parts.push(Part::new("C17/resume", json!({"depth": tier.pick(5, 6), "expiry": 1000, "secs_ago": 10, "vals": 1}), 0, tier.pick(15, 300)));
    parts.push(Part::new("C17/resume", json!({"depth": tier.pick(4, 5), "expiry": 0, "secs_ago": 10, "vals": 1}), 0, tier.pick(15, 300)));
    Check {
        also_rel: false,
        property: "C17",
        level: "model_checking",
        rule: "all histories of QoS 1/2 publishes, pings, subscribes, unsubscribes and their acknowledgements (success / failing) up to the stated depth; the connection is lost (EOF) after every prefix; in three parts operation futures are additionally held back, polled spuriously or dropped (deviations), so that the loss also falls between the PUBREC and the moment the QoS 2 future queues its PUBREL; the hook records the disconnection secs_ago seconds ago; set_up + connect (same options) + run on a fresh transport; the second wire must show CONNECT followed by exactly the unfinished PUBLISH (DUP=1, same id and content) / PUBREL packets in original order when the session has not expired, nothing when it has; then the acknowledgements arrive on the new connection and a fresh publish follows; session expiry in {0, 1000 s, never} x secs_ago in {10, 100000}, six (interval, elapsed) pairs of larger magnitude (a day, 120 days, just above 2^32 ms, 2^32 - 2 s; elapsed up to 5 * 10^9 s), and four combinations in which the CONNACK states a different Session Expiry Interval than the CONNECT (the broker's is the one in force); sessions resumed twice (also with abandoned futures in the history); 17 .. 300 unfinished handshakes (C17/bulk); the resume run under every write script over a write half that gathers vectored writes; connections opened by extended authentication; first connection ended by the user's / the server's DISCONNECT or a read error; value flavour; non-trivial = something had to be re-sent or an expired session had abandoned operations".into(),
        assumptions: vec![
            "same ConnectOpts on both connections; secs_ago is >= 100 s away from the expiry boundary (the wall clock is not behind a seam)".into(),
            "the disconnection is recorded by the cfg(poster_verif) hook, production code never records it".into(),
            "Receive Maximum is left at 65535 so that the quota after a resume (not covered by C10/C17) does not interfere".into(),
        ],
        parts,
    }
}

pub fn scenario(name: &str, params: &Value) -> Scenario {
    if name == "C17/bulk" {
        return bulk("C17", name.to_string(), params.clone());
    }
    scenario_for("C17", name, params)
}

/// (also run as a part of C10: with Receive Maximum 65535 every publish after the resume must be
/// accepted, and the acknowledgements of re-sent packets must not break the quota arithmetic)
/// Many unfinished handshakes at once (17 .. 300 QoS 1 / QoS 2 publishes, some between PUBREC and
/// PUBCOMP), connection loss, resume: every one of them is re-sent, in order, under a wake-only
/// executor - then acknowledged on the new connection.
pub fn bulk(prop: &'static str, name: String, params: Value) -> Scenario {
    Box::new(move |chz, ex| {
        let n = [17usize, 33, 64, 300][chz.choose(4)];
        let wmode = chz.choose(4);
        let mut sys = Sys::new(prop, &name, chz);
        sys.params = params.clone();
        sys.auto_exit = false;
        sys.m.check_streams = false;
        let spec = ConnectSpec { client_id: Some("bulk".into()), session_expiry: Some(1000), ..Default::default() };
        sys.connect_with(spec.clone(), SPacket::Connack { session_present: false, reason: 0, props: vec![] });
        if !sys.dead {
            sys.start_run();
        }
        for i in 0..n {
            sys.apply(Ev::Start(OpSpec::Publish(PublishSpec::simple(1 + (i % 2) as u8, "t/bulk", format!("m{}", i).as_bytes()))));
            // every fifth QoS 2 publish gets as far as its PUBREL
            if i % 10 == 1 && !sys.dead {
                if let Some(a) = sys.ack_for(i, 0, "") {
                    sys.apply(Ev::Deliver(a));
                }
            }
            if sys.dead {
                return sys.report(ex, &[]);
            }
        }
        sys.apply(Ev::Eof);
        if sys.dead {
            return sys.report(ex, &[]);
        }
        sys.events.push("MarkDisconnected(10s ago); Reconnect".into());
        sys.classes.push("Reconnect".into());
        sys.w.cmd(CtxCmd::MarkDisconnected(10));
        sys.w.new_wire();
        sys.m.new_wire();
        sys.connect_with(spec, SPacket::Connack { session_present: true, reason: 0, props: vec![] });
        if !sys.dead {
            sys.events.push("Run(resume)".into());
            sys.classes.push("Resume(expired=false)".into());
            sys.m.resume(false);
            match wmode {
                1 => sys.set_write_mode(crate::wire::WriteMode::PendingEach),
                2 => sys.set_write_mode(crate::wire::WriteMode::HalfThenPending),
                _ => {}
            }
            if wmode == 3 {
                // The transport takes exactly the first re-sent packet and then stalls; the broker
                // acknowledges that packet while the rest of the backlog is held up; then the transport
                // carries on. Every unfinished handshake is still re-sent, in order.
                let pid0 = sys.m.ops[0].pid.unwrap_or(1);
                let len1 = match &sys.m.ops[0].spec {
                    OpSpec::Publish(p) => encode_client(&p.expected(pid0).expect("harness: publish")).len(),
                    _ => unreachable!(),
                };
                sys.w.arm_write_block(len1);
                sys.w.cmd(CtxCmd::Run);
                sys.w.settle();
                if let Some(a) = sys.ack_for(0, 0, "") {
                    sys.events.push(format!("(first re-sent packet out, transport stalled) Deliver({})", a.brief()));
                    sys.m.deliver(a.clone());
                    sys.w.deliver(a.encode());
                    sys.w.settle();
                }
                sys.w.lift_write_block();
                sys.sync();
            } else {
                sys.w.cmd(CtxCmd::Run);
                sys.sync();
            }
            sys.set_write_mode(crate::wire::WriteMode::All);
        }
        for i in 0..n {
            if sys.dead {
                break;
            }
            while let Some(a) = sys.ack_for(i, 0, "") {
                sys.apply(Ev::Deliver(a));
                if sys.dead {
                    break;
                }
            }
        }
        sys.finish();
        sys.events = vec![format!("{} publishes unfinished at the loss, resumed (write mode {}), acknowledged", n, wmode)];
        sys.report(ex, &["resume-resend-publish", "resume-resend-pubrel"]);
    })
}

pub fn scenario_for(prop: &'static str, name: &str, params: &Value) -> Scenario {
    let depth = params["depth"].as_u64().unwrap_or(4) as usize;
    let expiry = params["expiry"].as_u64().unwrap_or(0) as u32;
    let secs_ago = params["secs_ago"].as_u64().unwrap_or(10);
    let connack_expiry: Option<u32> = params["connack_expiry"].as_u64().map(|v| v as u32);
    let params = params.clone();
    let name = name.to_string();
    Box::new(move |chz, ex| {
        let mut sys = Sys::new(prop, &name, chz);
        sys.params = params.clone();
        sys.auto_exit = false;
        sys.m.check_streams = false;
        let spec = ConnectSpec {
            client_id: Some("c17".into()),
            session_expiry: if expiry == 0 { None } else { Some(expiry) },
            ..Default::default()
        };
        let mut cprops: Vec<Prop> = connack_expiry
            .map(|v| vec![Prop::u32(P_SESSION_EXPIRY, v)])
            .unwrap_or_default();
        if let Some(r) = params["r"].as_u64() {
            cprops.push(Prop::u16(P_RECEIVE_MAXIMUM, r as u16));
        }
        // the interval in force is the broker's, if it states one
        let expiry = connack_expiry.unwrap_or(expiry);
        // (params.auth: both connections are opened by extended authentication: CONNECT, AUTH
        // challenge, authorize(), CONNACK)
        let auth = params["auth"].as_bool().unwrap_or(false);
        let spec = if auth {
            ConnectSpec { auth_method: Some("m".into()), auth_data: Some(vec![1]), ..spec }
        } else {
            spec
        };
        let open = |sys: &mut Sys, sp: bool, props: Vec<Prop>| {
            if !auth {
                sys.connect_with(spec.clone(), SPacket::Connack { session_present: sp, reason: 0, props });
                return;
            }
            sys.connect_with(
                spec.clone(),
                SPacket::Auth {
                    reason: 0x18,
                    props: vec![Prop::str(P_AUTH_METHOD, "m"), Prop::bin(P_AUTH_DATA, &[2])],
                    form: 2,
                },
            );
            if sys.dead {
                return;
            }
            let a = AuthSpec { reason: Some(0x18), method: Some("m".into()), data: Some(vec![3]), user_props: vec![] };
            sys.events.push("Authorize".into());
            sys.classes.push("Authorize".into());
            sys.m.authorize(&a);
            sys.w.cmd(CtxCmd::Authorize(a));
            sys.sync();
            if sys.dead {
                return;
            }
            let mut p = vec![Prop::str(P_AUTH_METHOD, "m")];
            p.extend(props);
            sys.apply(Ev::Deliver(SPacket::Connack { session_present: sp, reason: 0, props: p }));
        };
        open(&mut sys, false, cprops.clone());
        if !sys.dead {
            sys.start_run();
        }
        // other requests awaiting their acknowledgement sit between the publishes in the client's
        // bookkeeping; they are never re-sent
        let mut p1 = PublishSpec::simple(1, "t/a", b"one");
        let mut p2 = PublishSpec::simple(2, "t/b", b"two");
        if params["rich"].as_bool().unwrap_or(false) {
            // what is re-sent is the caller's packet: every option, flag and byte of it
            for (p, big) in [(&mut p1, false), (&mut p2, true)] {
                p.retain = Some(true);
                p.pfi = Some(true);
                p.topic_alias = Some(9);
                p.expiry = Some(77);
                p.correlation = Some(vec![0, 255, 7]);
                p.response_topic = Some("re/\u{feff}ply".into());
                p.content_type = Some("ct".into());
                p.user_props = vec![("z".into(), "1".into()), ("a".into(), "2".into()), ("z".into(), "3".into())];
                if big {
                    p.payload = Some(vec![0xa5; 70_000]);
                }
            }
        }
        let specs = vec![
            OpSpec::Publish(p1),
            OpSpec::Publish(p2),
            OpSpec::Ping,
            OpSpec::Subscribe(SubscribeSpec::simple("s/a")),
            OpSpec::Unsubscribe(UnsubscribeSpec::simple("s/a")),
        ];
        // the history; its length is chosen too, so that the loss happens after every prefix
        let len = chz.choose(depth + 1);
        for _ in 0..len {
            if sys.dead {
                break;
            }
            if params["sched"].as_bool().unwrap_or(false) {
                let mut ds = sched_deviations(&sys, false, false);
                for i in 0..sys.m.ops.len() {
                    let o = &sys.m.ops[i];
                    // (a QoS 2 publish abandoned before its PUBREC is the recorded finding K-C15-1)
                    let q2_early = matches!(&o.spec, OpSpec::Publish(p) if p.qos() == 2)
                        && !matches!(o.st, St::AwaitComp);
                    if o.alive && o.st != St::Done && !q2_early {
                        ds.push(Ev::Cancel(i));
                    }
                }
                let d = chz.deviate(1 + ds.len());
                if d > 0 {
                    sys.apply(ds[d - 1].clone());
                    if sys.dead {
                        break;
                    }
                }
            }
            let mut e = start_events(&sys, &specs, 4, 2);
            e.extend(broker_acks(&sys, true, false));
            let i = chz.choose(e.len());
            sys.apply(e[i].clone());
        }
        // (params.twice: the resumed connection is lost as well and the session resumed a second time -
        // what was acknowledged on the second connection is not re-sent on the third)
        let rounds = if params["twice"].as_bool().unwrap_or(false) { 2 } else { 1 };
        for round in 0..rounds {
            if sys.dead || (round > 0 && sys.m.ctx != CtxSt::Running) {
                break;
            }
            // connection loss - or (params.end) the user's DISCONNECT / the server's graceful one: the
            // session survives those just the same, and unfinished handshakes are re-sent on a resume
            if !sys.dead {
                match params["end"].as_str().unwrap_or("eof") {
                    "disconnect" => sys.apply(Ev::Start(OpSpec::Disconnect(DisconnectSpec::default()))),
                    "server" => sys.apply(Ev::Deliver(SPacket::Disconnect { reason: 0, props: vec![], form: 1 })),
                    "error" => sys.apply(Ev::ReadErr),
                    _ => sys.apply(Ev::Eof),
                }
            }
            if !sys.dead {
                let expired = expiry == 0 || (expiry != u32::MAX && secs_ago >= expiry as u64);
                sys.events.push(format!("MarkDisconnected({}s ago); Reconnect", secs_ago));
                sys.classes.push("Reconnect".into());
                sys.w.cmd(CtxCmd::MarkDisconnected(secs_ago));
                sys.w.new_wire();
                sys.m.new_wire();
                // (params.r2: the new connection's CONNACK announces a small Receive Maximum - the unfinished
                // handshakes are all re-sent nevertheless: they were begun under the old connection's terms)
                let mut cprops2 = cprops.clone();
                if let Some(r2) = params["r2"].as_u64() {
                    cprops2.retain(|p| p.id != P_RECEIVE_MAXIMUM);
                    cprops2.push(Prop::u16(P_RECEIVE_MAXIMUM, r2 as u16));
                }
                // (params.m2: the new connection announces a Maximum Packet Size - it binds every new
                // request made on it, whether the old session was resumed or had expired)
                if let Some(m2) = params["m2"].as_u64() {
                    cprops2.push(Prop::u32(P_MAXIMUM_PACKET_SIZE, m2 as u32));
                }
                open(&mut sys, !expired, cprops2);
                if !sys.dead {
                    sys.events.push("Run(resume)".into());
                    sys.classes.push(format!("Resume(expired={})", expired));
                    sys.m.resume(expired);
                    // (params.wmode: how the transport takes the re-sent packets - every way of accepting
                    // all / one byte / half / the first packet and one byte of the next / Pending, as
                    // deviations; or half, Pending, the rest. The mock's write half gathers vectored writes.)
                    match params["wmode"].as_str() {
                        Some("explore") => sys.set_write_mode(crate::wire::WriteMode::Explore),
                        Some("htp") => sys.set_write_mode(crate::wire::WriteMode::HalfThenPending),
                        Some("one") => sys.set_write_mode(crate::wire::WriteMode::OneByte),
                        _ => {}
                    }
                    sys.w.cmd(CtxCmd::Run);
                    sys.sync();
                    if params["wmode"].is_string() {
                        sys.set_write_mode(crate::wire::WriteMode::All);
                    }
                }
                // the acknowledgements arrive on the new connection, in every order
                for _ in 0..3 {
                    if sys.dead {
                        break;
                    }
                    // only the publish handshakes continue on the new connection
                    let e: Vec<Ev> = (0..sys.m.ops.len())
                        .filter(|&i| matches!(sys.m.ops[i].spec, OpSpec::Publish(_)))
                        .filter_map(|i| sys.ack_for(i, 0, "").map(Ev::Deliver))
                        .collect();
                    if e.is_empty() {
                        break;
                    }
                    // (twice: some handshakes are left unfinished when the connection is lost again)
                    let i = chz.choose(e.len() + (rounds - 1));
                    if i == e.len() {
                        break;
                    }
                    sys.apply(e[i].clone());
                }
                // new traffic works (with a small Receive Maximum on the new connection the quota after a
                // resume is outside C10 and C17: a QoS 0 publish then)
                if !sys.dead {
                    let q = if params["r2"].as_u64().is_some() { 0 } else { 1 };
                    sys.apply(Ev::Start(OpSpec::Publish(PublishSpec::simple(q, "t/new", b"new"))));
                }
                // after an expired session nothing of the old one is left: a new ping is answered by the
                // first PINGRESP of the new connection, a new subscribe by its SUBACK
                if expired && params["fresh"].as_bool().unwrap_or(false) && !sys.dead {
                    sys.apply(Ev::Start(OpSpec::Ping));
                    sys.apply(Ev::Deliver(SPacket::Pingresp));
                    sys.apply(Ev::Start(OpSpec::Subscribe(SubscribeSpec::simple("s/fresh"))));
                    let o = sys.m.ops.len() - 1;
                    if !sys.dead {
                        if let Some(a) = sys.ack_for(o, 0, "fresh") {
                            sys.apply(Ev::Deliver(a));
                        }
                    }
                    sys.apply(Ev::Start(OpSpec::Ping));
                    sys.apply(Ev::Deliver(SPacket::Pingresp));
                }
            }
        }
        sys.finish();
        sys.report(
            ex,
            &["resume-resend-publish", "resume-resend-pubrel", "resume-expired"],
        );
    })
}
