//! C09 - an inbound QoS 2 message is delivered to the application exactly once.

use super::common::*;
use super::*;
use crate::spec::*;
use crate::sys::*;
use pvcore::refcodec::*;

pub fn check(tier: Tier) -> Check {
    let parts = vec![Part::new(
        "C09/qos2",
        json!({"depth": tier.pick(7, 9)}),
        0,
        tier.pick(40, 600),
    )];
    let mut parts = parts;
    parts.push(Part::new("C09/qos2", json!({"depth": tier.pick(6, 7), "flavour": 1, "own_rm": 20}), 0, tier.pick(40, 300)));
    // identifiers that only differ in their high byte / collide when truncated
    parts.push(Part::new("C09/qos2", json!({"depth": tier.pick(6, 7), "ids": [1, 257]}), 0, tier.pick(40, 300)));
    parts.push(Part::new("C09/qos2", json!({"depth": tier.pick(6, 7), "ids": [255, 65535]}), 0, tier.pick(40, 300)));
    // the client's own QoS 2 publishes use the same identifier values (1, 2, ...) - an independent
    // namespace: their PUBREC / PUBCOMP must not touch the inbound bookkeeping
    parts.push(Part::new("C09/qos2", json!({"depth": tier.pick(6, 7), "own": true}), 0, tier.pick(40, 400)));
    // the server's Receive Maximum / Maximum Packet Size limit what the CLIENT sends; the number of
    // inbound exchanges open at once is not bounded by them
    parts.push(Part::new("C09/qos2", json!({"depth": tier.pick(6, 7), "r": 1, "m": 40}), 0, tier.pick(40, 300)));
    parts.push(Part::new("C09/qos2", json!({"depth": tier.pick(5, 6), "r": 2, "ids": [1, 2, 3], "own": true}), 0, tier.pick(40, 300)));
    parts.push(Part::new("C09/wide", json!({"n": 300, "r": 7}), 0, 300));
    // two subscriptions: one message for both streams, one of them dropped, re-deliveries naming
    // the same / fewer / other subscription identifiers, messages no stream takes
    parts.push(Part::new("C09/qos2", json!({"depth": tier.pick(4, 5), "two": true}), 0, tier.pick(40, 300)));
    parts.push(Part::new("C09/qos2", json!({"depth": tier.pick(5, 6), "rel_forms": true}), 0, tier.pick(40, 300)));
    // second connection (default CONNECT) of a Context whose first CONNECT announced Receive Maximum 2:
    // three inbound exchanges open at once are fine now
    parts.push(Part::new("C09/qos2", json!({"depth": tier.pick(5, 6), "flavour": 9, "ids": [1, 2, 3]}), 0, tier.pick(40, 300)));
    // the bookkeeping across a reconnect: kept while the session lives, forgotten when it expired
    parts.push(Part::new("C09/reset", json!({}), 0, 60));
    // on a connection that allows topic aliases: re-deliveries in the alias-only form (value flavour)
    parts.push(Part::new("C09/qos2", json!({"depth": tier.pick(6, 7), "flavour": 1, "own_rm": 20, "vals": 1}), 0, tier.pick(40, 300)));
    // re-deliveries that arrive seconds later (real time), the messages carrying a Message Expiry Interval
    parts.push(Part::new("C09/aging", json!({}), 0, 60));
    parts.push(Part::new("C09/wide", json!({"n": tier.pick(4096, 65535)}), 0, 300));
    // value flavour (DESIGN 4): the same exploration with requests / inbound messages of unusual content
    parts.push(Part::new("C09/qos2", json!({"depth": tier.pick(6, 7), "vals": 1}), 0, tier.pick(40, 300)));
    parts.push(Part::new("C09/qos2", json!({"depth": tier.pick(4, 5), "two": true, "vals": 1}), 0, tier.pick(40, 300)));
    Check {
        also_rel: false,
        property: "C09",
        level: "model_checking",
        rule: "all sequences over {PUBLISH(QoS 2, id in {1,2} / {1,257} / {255,65535}, DUP 0/1), PUBREL(id in {1,2}), an unrelated QoS 1 PUBLISH} against one subscribed stream, also interleaved with two QoS 2 publishes of the client's own that carry the same identifier values and their PUBREC / PUBCOMP; the model keeps the set of identifiers awaiting PUBREL; the same under a CONNACK with Receive Maximum 1 / 2 / 7 and a Maximum Packet Size (limits on what the client sends, not on inbound exchanges); plus two subscribed streams (a message for both, either stream dropped, re-deliveries naming both / one / an unknown / no subscription identifier); plus the bookkeeping across a reconnect (an unreleased identifier is still a re-delivery after a resume of the live session, and a new message after an expired one); plus deterministic runs over every identifier 1..=n at once (deliver all, re-deliver all, release all, twice, three orders); re-deliveries 2.2 s of real time after the delivery of messages carrying a Message Expiry Interval of 0 / 1 s (C09/aging); value flavour; non-trivial = a re-delivery had to be suppressed".into(),
        assumptions: vec![],
        parts,
    }
}

/// Every identifier 1..=n delivered once (all unreleased at the same time), re-delivered, released and
/// used again: the bookkeeping must be keyed by the full identifier value.
fn wide(name: String, params: Value) -> Scenario {
    Box::new(move |chz, ex| {
        let n = params["n"].as_u64().unwrap_or(4096) as u16;
        let stride = [1u32, 33, 257][chz.choose(3)];
        let mut sys = Sys::new("C09", &name, chz);
        sys.params = params.clone();
        sys.bring_up(params["r"].as_u64().map(|r| receive_max(r as u16)).unwrap_or_default());
        sys.apply(Ev::Start(OpSpec::Subscribe(SubscribeSpec::simple("s/a"))));
        if sys.dead {
            return sys.report(ex, &[]);
        }
        let ack = sys.ack_for(0, 0, "").unwrap();
        sys.apply(Ev::Deliver(ack));
        sys.apply(Ev::TakeStream(0));
        let sid = sys.m.subs[0].sub_id.unwrap();
        // a permutation of 1..=n
        let order: Vec<u16> = {
            let mut v: Vec<u16> = vec![];
            for r in 0..stride {
                let mut k = r;
                while k < n as u32 {
                    v.push(k as u16 + 1);
                    k += stride;
                }
            }
            v
        };
        for round in 0..2 {
            for &pid in &order {
                sys.apply(Ev::Deliver(inbound(2, false, pid, &[sid], &format!("n{}-{}", round, pid))));
                if sys.dead {
                    return sys.report(ex, &[]);
                }
            }
            for &pid in order.iter().rev() {
                sys.apply(Ev::Deliver(inbound(2, pid % 2 == 0, pid, &[sid], "again")));
                if sys.dead {
                    return sys.report(ex, &[]);
                }
            }
            // every third identifier is released and used again at once, while the others stay open; then
            // the open ones are repeated once more (a structure that summarises the set - a filter, a
            // range - goes stale when part of the set leaves)
            for &pid in order.iter().filter(|p| **p % 3 == 0) {
                sys.apply(Ev::Deliver(pubrel_in(pid)));
                if sys.dead {
                    return sys.report(ex, &[]);
                }
            }
            for &pid in order.iter().filter(|p| **p % 3 != 0) {
                sys.apply(Ev::Deliver(inbound(2, true, pid, &[sid], "once more")));
                if sys.dead {
                    return sys.report(ex, &[]);
                }
            }
            for &pid in order.iter().filter(|p| **p % 3 == 0) {
                sys.apply(Ev::Deliver(inbound(2, false, pid, &[sid], &format!("reused{}-{}", round, pid))));
                if sys.dead {
                    return sys.report(ex, &[]);
                }
            }
            for &pid in &order {
                sys.apply(Ev::Deliver(pubrel_in(pid)));
                if sys.dead {
                    return sys.report(ex, &[]);
                }
            }
        }
        sys.finish();
        sys.events = vec![format!("identifiers 1..={} (stride {}): deliver all, re-deliver all, release all; twice", n, stride)];
        sys.report(ex, &["qos2-redelivery-suppressed"]);
    })
}

/// An identifier that is unreleased when the connection is lost: after a resume of the live session a
/// PUBLISH carrying it is still a re-delivery; after an expired session (everything forgotten, a new
/// subscription made) it is a new message.
pub fn reset(prop: &'static str, name: String, params: Value) -> Scenario {
    Box::new(move |chz, ex| {
        let expired = chz.choose(2) == 1;
        // how the first connection ends: 0 = end-of-stream, recorded by the hook (a resume);
        // 1 = the write of the PUBREC itself fails and the Context is simply connected again (the
        // session bookkeeping lives on): the message has been handed to the application once
        let how = if expired { 0 } else { chz.choose(3) };
        let failed_write = how == 1;
        // 2 = the server ends the connection gracefully (DISCONNECT reason 0) and the Context is
        // connected again: the bookkeeping of unreleased identifiers lives on
        let graceful = how == 2;
        let pid = [1u16, 300, 65535][chz.choose(3)];
        let released_before = chz.choose(2) == 1;
        let mut sys = Sys::new(prop, &name, chz);
        sys.params = params.clone();
        sys.auto_exit = false;
        let spec = ConnectSpec {
            client_id: Some("c09".into()),
            session_expiry: if expired { None } else { Some(1000) },
            ..Default::default()
        };
        let connack = |sp: bool| SPacket::Connack { session_present: sp, reason: 0, props: vec![] };
        sys.connect_with(spec.clone(), connack(false));
        if !sys.dead {
            sys.start_run();
        }
        let mut sid = vec![];
        if !expired {
            // the subscription (and its stream) lives on in the resumed session
            sys.apply(Ev::Start(OpSpec::Subscribe(SubscribeSpec::simple("s/a"))));
            if sys.dead {
                return sys.report(ex, &[]);
            }
            let ack = sys.ack_for(0, 0, "").unwrap();
            sys.apply(Ev::Deliver(ack));
            sys.apply(Ev::TakeStream(0));
            sid.push(sys.m.subs[0].sub_id.unwrap());
        }
        if failed_write {
            sys.apply(Ev::WriteErr);
        }
        sys.apply(Ev::Deliver(inbound(2, false, pid, &sid, "first")));
        if graceful {
            sys.apply(Ev::Deliver(SPacket::Disconnect { reason: 0, props: vec![], form: 1 }));
        } else if !failed_write {
            if released_before {
                sys.apply(Ev::Deliver(pubrel_in(pid)));
            }
            sys.apply(Ev::Eof);
        }
        if sys.dead {
            return sys.report(ex, &[]);
        }
        if failed_write || graceful {
            sys.events.push("Reconnect".into());
            sys.classes.push("Reconnect".into());
            sys.w.new_wire();
            sys.m.new_wire();
            sys.connect_with(spec, connack(false));
            if !sys.dead {
                sys.start_run();
            }
        } else {
            sys.events.push("MarkDisconnected(10s ago); Reconnect".into());
            sys.classes.push("Reconnect".into());
            sys.w.cmd(crate::world::CtxCmd::MarkDisconnected(10));
            sys.w.new_wire();
            sys.m.new_wire();
            sys.connect_with(spec, connack(!expired));
            if !sys.dead {
                sys.events.push("Run(resume)".into());
                sys.classes.push(format!("Resume(expired={})", expired));
                sys.m.resume(expired);
                sys.w.cmd(crate::world::CtxCmd::Run);
                sys.sync();
            }
        }
        if expired && !sys.dead {
            sys.apply(Ev::Start(OpSpec::Subscribe(SubscribeSpec::simple("s/new"))));
            if sys.dead {
                return sys.report(ex, &[]);
            }
            let o = sys.m.ops.len() - 1;
            let ack = sys.ack_for(o, 0, "").unwrap();
            sys.apply(Ev::Deliver(ack));
            sys.apply(Ev::TakeStream(o));
            let sb = sys.m.ops[o].sub.unwrap();
            sid = vec![sys.m.subs[sb].sub_id.unwrap()];
        }
        // the same identifier again: re-delivery (live session, not yet released) or a new message
        sys.apply(Ev::Deliver(inbound(2, true, pid, &sid, "again")));
        sys.apply(Ev::Deliver(pubrel_in(pid)));
        sys.apply(Ev::Deliver(inbound(2, false, pid, &sid, "reused")));
        sys.apply(Ev::Deliver(pubrel_in(pid)));
        sys.finish();
        sys.m.hits.push("qos2-across-reconnect");
        sys.report(ex, &["qos2-across-reconnect"]);
    })
}

/// Real time passes between a QoS 2 delivery and its re-delivery - longer than the Message Expiry
/// Interval the message carries (0 s / 1 s). Expiry is the server's business (it stops forwarding an
/// expired message); an exchange the client has answered with PUBREC stays open until its PUBREL,
/// however old it is.
fn aging(name: String, params: Value) -> Scenario {
    Box::new(move |chz, ex| {
        let with_expiry = chz.choose(2) == 1;
        let mut sys = Sys::new("C09", &name, chz);
        sys.params = params.clone();
        sys.bring_up(vec![]);
        sys.apply(Ev::Start(OpSpec::Subscribe(SubscribeSpec::simple("s/a"))));
        if sys.dead {
            return sys.report(ex, &[]);
        }
        let ack = sys.ack_for(0, 0, "").unwrap();
        sys.apply(Ev::Deliver(ack));
        sys.apply(Ev::TakeStream(0));
        if sys.dead {
            return sys.report(ex, &[]);
        }
        let sid = sys.m.subs[0].sub_id.unwrap();
        let msg = |pid: u16, dup: bool, exp: u32, tag: &str| {
            let mut p = inbound(2, dup, pid, &[sid], tag);
            if let (SPacket::Publish { props, .. }, true) = (&mut p, with_expiry) {
                props.push(Prop::u32(P_MESSAGE_EXPIRY, exp));
            }
            p
        };
        sys.apply(Ev::Deliver(msg(1, false, 0, "a")));
        sys.apply(Ev::Deliver(msg(2, false, 1, "b")));
        sys.events.push("(2.2 s of real time pass)".into());
        std::thread::sleep(std::time::Duration::from_millis(2200));
        sys.apply(Ev::Deliver(msg(1, true, 0, "a")));
        sys.apply(Ev::Deliver(msg(2, false, 1, "b")));
        sys.apply(Ev::Deliver(pubrel_in(1)));
        sys.apply(Ev::Deliver(msg(1, false, 0, "c")));
        sys.apply(Ev::Deliver(pubrel_in(2)));
        sys.apply(Ev::Deliver(pubrel_in(1)));
        sys.finish();
        sys.report(ex, &["qos2-redelivery-suppressed"]);
    })
}

pub fn scenario(name: &str, params: &Value) -> Scenario {
    if name == "C09/aging" {
        return aging(name.to_string(), params.clone());
    }
    if name == "C09/reset" {
        return reset("C09", name.to_string(), params.clone());
    }
    if name == "C09/wide" {
        return wide(name.to_string(), params.clone());
    }
    let depth = params["depth"].as_u64().unwrap_or(5) as usize;
    let ids: Vec<u16> = params["ids"]
        .as_array()
        .map(|a| a.iter().map(|x| x.as_u64().unwrap() as u16).collect())
        .unwrap_or_else(|| vec![1, 2]);
    let own = params["own"].as_bool().unwrap_or(false);
    let params = params.clone();
    let name = name.to_string();
    Box::new(move |chz, ex| {
        let mut sys = Sys::new("C09", &name, chz);
        sys.params = params.clone();
        let mut cprops = params["r"].as_u64().map(|r| receive_max(r as u16)).unwrap_or_default();
        if let Some(m) = params["m"].as_u64() {
            cprops.push(Prop::u32(P_MAXIMUM_PACKET_SIZE, m as u32));
        }
        sys.bring_up_fl(cprops, params["flavour"].as_u64().unwrap_or(0));
        sys.apply(Ev::Start(OpSpec::Subscribe(SubscribeSpec::simple("s/a"))));
        if sys.dead {
            return sys.report(ex, &[]);
        }
        let ack = sys.ack_for(0, 0, "").unwrap();
        sys.apply(Ev::Deliver(ack));
        sys.apply(Ev::TakeStream(0));
        if sys.dead {
            return sys.report(ex, &[]);
        }
        let sid = sys.m.subs[0].sub_id.unwrap();
        let two = params["two"].as_bool().unwrap_or(false);
        let rel_forms = params["rel_forms"].as_bool().unwrap_or(false);
        let mut lists: Vec<Vec<u32>> = vec![vec![sid]];
        if two {
            sys.apply(Ev::Start(OpSpec::Subscribe(SubscribeSpec::simple("s/b"))));
            if sys.dead {
                return sys.report(ex, &[]);
            }
            let ack = sys.ack_for(1, 0, "").unwrap();
            sys.apply(Ev::Deliver(ack));
            sys.apply(Ev::TakeStream(1));
            if sys.dead {
                return sys.report(ex, &[]);
            }
            let sid2 = sys.m.subs[1].sub_id.unwrap();
            lists = vec![vec![sid, sid2], vec![sid2, sid], vec![sid], vec![999], vec![]];
        }
        // a conformant broker repeats a message unchanged: each packet identifier keeps the
        // subscription-identifier list chosen for it here throughout the execution
        let list_of: Vec<usize> = ids.iter().map(|_| if two { chz.choose(lists.len()) } else { 0 }).collect();
        let evs = |s: &Sys| {
            let mut e = vec![];
            let n = s.transitions;
            for (k, pid) in ids.iter().copied().enumerate() {
                let l = &lists[list_of[k]];
                for dup in [false, true] {
                    e.push(Ev::Deliver(inbound(2, dup, pid, l, &format!("m{}", n))));
                }
                e.push(Ev::Deliver(pubrel_in(pid)));
                if rel_forms {
                    // a PUBREL in its other legal forms (reason 0x92 in three bytes, in full with a
                    // reason string) releases the identifier like any other
                    e.push(Ev::Deliver(SPacket::Ack { ty: 6, pid, reason: 0x92, props: vec![], form: 3 }));
                    e.push(Ev::Deliver(SPacket::Ack { ty: 6, pid, reason: 0, props: vec![Prop::str(P_REASON_STRING, "rel")], form: 4 }));
                }
            }
            if two {
                for i in 0..s.m.streams.len() {
                    if s.m.streams[i].alive {
                        e.push(Ev::DropStream(i));
                    }
                }
            }
            e.push(Ev::Deliver(inbound(1, false, ids[0], &[sid], &format!("u{}", n))));
            if own {
                let mine = s
                    .m
                    .ops
                    .iter()
                    .filter(|o| matches!(o.spec, OpSpec::Publish(_)))
                    .count();
                if mine < 2 {
                    e.push(Ev::Start(OpSpec::Publish(PublishSpec::simple(2, "t/own", b"mine"))));
                }
                e.extend(broker_acks(s, false, false));
            }
            e
        };
        drive(&mut sys, chz, depth, &|_| vec![], &evs);
        sys.report(ex, &["qos2-redelivery-suppressed"]);
    })
}
