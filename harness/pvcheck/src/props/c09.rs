//! C09 - an inbound QoS 2 message is delivered to the application exactly once.

use super::common::*;
use super::*;
use crate::spec::*;
use crate::sys::*;

pub fn check(tier: Tier) -> Check {
    let parts = vec![Part::new(
        "C09/qos2",
        json!({"depth": tier.pick(7, 9)}),
        0,
        tier.pick(40, 600),
    )];
    let mut parts = parts;
    parts.push(Part::new("C09/qos2", json!({"depth": tier.pick(6, 7), "flavour": 1}), 0, tier.pick(40, 300)));
    Check {
        also_rel: false,
        property: "C09",
        level: "model_checking",
        rule: "all sequences over {PUBLISH(QoS 2, id in {1,2}, DUP 0/1), PUBREL(id in {1,2}), an unrelated QoS 1 PUBLISH} against one subscribed stream; the model keeps the set of identifiers awaiting PUBREL; non-trivial = a re-delivery had to be suppressed".into(),
        assumptions: vec![],
        parts,
    }
}

pub fn scenario(name: &str, params: &Value) -> Scenario {
    let depth = params["depth"].as_u64().unwrap_or(5) as usize;
    let params = params.clone();
    let name = name.to_string();
    Box::new(move |chz, ex| {
        let mut sys = Sys::new("C09", &name, chz);
        sys.params = params.clone();
        sys.bring_up_fl(vec![], params["flavour"].as_u64().unwrap_or(0));
        sys.apply(Ev::Start(OpSpec::Subscribe(SubscribeSpec::simple("s/a"))));
        if sys.dead {
            return sys.report(ex, &[]);
        }
        let ack = sys.ack_for(0, 0, "").unwrap();
        sys.apply(Ev::Deliver(ack));
        sys.apply(Ev::TakeStream(0));
        if sys.dead {
            return sys.report(ex, &[]);
        }
        let sid = sys.m.subs[0].sub_id.unwrap();
        let evs = |s: &Sys| {
            let mut e = vec![];
            let n = s.transitions;
            for pid in [1u16, 2] {
                for dup in [false, true] {
                    e.push(Ev::Deliver(inbound(2, dup, pid, &[sid], &format!("m{}", n))));
                }
                e.push(Ev::Deliver(pubrel_in(pid)));
            }
            e.push(Ev::Deliver(inbound(1, false, 1, &[sid], &format!("u{}", n))));
            e
        };
        drive(&mut sys, chz, depth, &|_| vec![], &evs);
        sys.report(ex, &["qos2-redelivery-suppressed"]);
    })
}
