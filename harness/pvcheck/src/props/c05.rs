//! C05 - each operation completes exactly once, with the acknowledgement addressed to it.

use super::*;
use crate::model::*;
use crate::spec::*;
use crate::sys::*;
use crate::world::Tid;
use pvcore::refcodec::SPacket;

pub fn check(tier: Tier) -> Check {
    let mut parts = vec![];
    for k in 0..=tier.pick(2, 3) {
        let d = match (tier, k) {
            (Tier::Quick, 0) => 7,
            (Tier::Quick, 1) => 5,
            (Tier::Quick, _) => 4,
            (Tier::Thorough, 0) => 8,
            (Tier::Thorough, 1) => 7,
            (Tier::Thorough, 2) => 6,
            (Tier::Thorough, _) => 5,
        };
        parts.push(Part::new(
            "C05/ops",
            json!({"depth": d}),
            k,
            tier.pick(40, 400),
        ));
    }
    parts.push(Part::new("C05/wide", json!({"n": 600}), 0, 120));
    // the same with the context task held back while the requests are issued: 600 requests are
    // waiting in its queue when it runs again (a burst on the request side)
    parts.push(Part::new("C05/wide", json!({"n": 600, "held": true}), 0, 120));
    // the same exploration over a connection whose CONNECT / CONNACK carry everything else
    parts.push(Part::new("C05/ops", json!({"depth": tier.pick(5, 7), "flavour": 1}), 0, tier.pick(40, 600)));
    // identifier flavour: the counters start next to a boundary of their encodings (DESIGN 4)
    parts.push(Part::new("C05/ops", json!({"depth": tier.pick(5, 6), "ids": [32766, 126]}), 0, tier.pick(40, 600)));
    parts.push(Part::new("C05/ops", json!({"depth": tier.pick(4, 5), "ids": [254, 16382]}), 1, tier.pick(40, 600)));
    // an abandoned operation (its future dropped) must not shift the completions of the others:
    // a cancellation is a deviation here (C15 explores cancellation for its own sake)
    parts.push(Part::new("C05/ops", json!({"depth": tier.pick(5, 6), "cancel": true}), 1, tier.pick(40, 600)));
    parts.push(Part::new("C05/ops", json!({"depth": tier.pick(4, 5), "cancel": true}), 2, tier.pick(40, 600)));
    // requests made before connect(): they are served, and acknowledged, like the others
    parts.push(Part::new("C05/ops", json!({"depth": tier.pick(5, 6), "early": 3}), 0, tier.pick(40, 600)));
    parts.push(Part::new("C05/ops", json!({"depth": tier.pick(4, 5), "early": 4}), 1, tier.pick(40, 600)));
    // after a connection loss and an EXPIRED session (hook H1) the old waiters are gone: new pings and
    // a new subscribe on the next connection complete on their own acknowledgements
    parts.push(Part::new("C05/expired", json!({"depth": tier.pick(4, 5), "expiry": 0, "secs_ago": 10, "fresh": true}), 0, tier.pick(40, 300)));
    parts.push(Part::new("C05/expired", json!({"depth": tier.pick(3, 4), "expiry": 1000, "secs_ago": 100000, "fresh": true, "sched": true}), 1, tier.pick(40, 300)));
    // the second connection of a Context whose first one ended in a failed write of a request
    // (a PINGREQ: flavour 8; the user's DISCONNECT with a publish outstanding: flavour 6)
    parts.push(Part::new("C05/ops", json!({"depth": tier.pick(4, 5), "flavour": 8}), 0, tier.pick(40, 600)));
    parts.push(Part::new("C05/ops", json!({"depth": tier.pick(4, 5), "flavour": 6}), 0, tier.pick(40, 600)));
    // acknowledgements with the non-zero success reason 0x10 in the alphabet
    parts.push(Part::new("C05/ops", json!({"depth": tier.pick(5, 6), "nomatch": true}), 0, tier.pick(40, 600)));
    parts.push(Part::new("C05/ops", json!({"depth": tier.pick(4, 5), "nomatch": true}), 1, tier.pick(40, 600)));
    // acknowledgements whose content (reason string, user properties) takes more than 127 bytes
    parts.push(Part::new("C05/ops", json!({"depth": tier.pick(4, 5), "longtag": true}), 0, tier.pick(40, 600)));
    // operations outstanding while messages arrive for live, dropped and never-taken streams
    parts.push(Part::new("C05/streams", json!({"depth": tier.pick(4, 6)}), 0, tier.pick(30, 400)));
    // a sliding window of 2 .. 8 outstanding operations over 60 rounds (short-form and long-form acks)
    parts.push(Part::new("C05/sliding", json!({}), 0, 120));
    // acknowledgements without content: failing ones then take the reason-only form (remaining length 3)
    parts.push(Part::new("C05/ops", json!({"depth": tier.pick(5, 6), "untagged": true}), 0, tier.pick(40, 600)));
    // two operations outstanding whose packet identifiers differ in exactly one bit
    parts.push(Part::new("C05/bits", json!({}), 0, 120));
    // value flavour (DESIGN 4): the same exploration with requests / inbound messages of unusual content
    parts.push(Part::new("C05/ops", json!({"depth": tier.pick(5, 6), "vals": 1}), 0, tier.pick(40, 600)));
    parts.push(Part::new("C05/ops", json!({"depth": tier.pick(4, 5), "vals": 1}), 1, tier.pick(40, 600)));
    Check {
        also_rel: false,
        property: "C05",
        level: "model_checking",
        rule: "all event sequences (operation starts, conformant acknowledgements in every order with distinguishing content, delayed / spurious polls - and, in two parts, the cancellation of another operation - as deviations) up to the stated depth and deviation bound; plus 9 deterministic runs with 600 operations of all kinds outstanding at once (packet identifiers spanning several multiples of 256 and the wrap) acknowledged in three permutations; plus every pair of operation kinds outstanding with packet identifiers that differ in exactly one bit (bit 0..15, two base values), acknowledged in both orders; parts with the success reason 0x10, with acknowledgements of more than 127 property bytes, and with requests of unusual content (value flavour); non-trivial = an execution in which at least one acknowledgement completed an operation".into(),
        assumptions: vec![
            "broker events are conformant (acknowledgements only for outstanding identifiers)".into(),
            "futures-channel is in the trusted base".into(),
        ],
        parts,
    }
}

pub fn op_specs() -> Vec<OpSpec> {
    vec![
        OpSpec::Publish(PublishSpec::simple(1, "t/a", b"one")),
        OpSpec::Publish(PublishSpec::simple(2, "t/b", b"two")),
        OpSpec::Subscribe(SubscribeSpec::simple("s/a")),
        OpSpec::Unsubscribe(UnsubscribeSpec::simple("s/a")),
        OpSpec::Ping,
    ]
}

fn kind_of(s: &OpSpec) -> u8 {
    match s {
        OpSpec::Publish(p) => p.qos(),
        OpSpec::Subscribe(_) => 3,
        OpSpec::Unsubscribe(_) => 4,
        OpSpec::Ping => 5,
        OpSpec::Disconnect(_) => 6,
    }
}

pub fn outstanding(m: &Model) -> Vec<usize> {
    (0..m.ops.len())
        .filter(|&i| m.ops[i].alive && m.ops[i].st != St::Done)
        .collect()
}

/// conformant broker events for the current state
pub fn broker_events(sys: &Sys, with_fail: bool) -> Vec<Ev> {
    let mut evs = vec![];
    for i in 0..sys.m.ops.len() {
        let tag = format!("r{}", i);
        if let Some(p) = sys.ack_for(i, 0, &tag) {
            evs.push(Ev::Deliver(p));
            if with_fail {
                let fail = match &sys.m.ops[i].st {
                    St::AwaitComp => 0x92,
                    _ => 0x80,
                };
                evs.push(Ev::Deliver(sys.ack_for(i, fail, &tag).unwrap()));
            }
        }
    }
    let pingresps = sys
        .m
        .inbox
        .iter()
        .filter(|p| matches!(p, SPacket::Pingresp))
        .count();
    if sys.m.pings.len() > pingresps {
        evs.push(Ev::Deliver(SPacket::Pingresp));
    }
    evs
}

pub fn deviations(sys: &Sys, ctx_too: bool) -> Vec<Ev> {
    let mut d = vec![];
    for i in 0..sys.m.ops.len() {
        let o = &sys.m.ops[i];
        if !o.alive || o.st == St::Done {
            continue;
        }
        if o.held {
            d.push(Ev::Release(Tid::Op(i)));
        } else {
            d.push(Ev::Hold(Tid::Op(i)));
            if o.st != St::NotPolled {
                d.push(Ev::Spurious(Tid::Op(i)));
            }
        }
    }
    if ctx_too && sys.m.ctx == CtxSt::Running {
        if sys.m.ctx_held {
            d.push(Ev::Release(Tid::Ctx));
        } else {
            d.push(Ev::Hold(Tid::Ctx));
            d.push(Ev::Spurious(Tid::Ctx));
        }
    }
    d
}

/// Many operations of all kinds outstanding at once, packet identifiers spanning several multiples of
/// 256, acknowledged in three different permutations: correlation must not depend on identifier
/// values being small or close together.
fn wide(name: String, params: Value) -> Scenario {
    Box::new(move |chz, ex| {
        let n = params["n"].as_u64().unwrap_or(600) as usize;
        let order = chz.choose(3);
        let start_pid = [200u16, 65000, 1][chz.choose(3)];
        let mut sys = Sys::new("C05", &name, chz);
        sys.params = params.clone();
        sys.m.check_client_acks = false;
        sys.bring_up(vec![]);
        sys.w.handle().verif_set_ids(start_pid, 100);
        sys.events.push(format!("PresetCounters({}, 100)", start_pid));
        let specs = op_specs();
        let held = params["held"].as_bool().unwrap_or(false);
        if held {
            sys.apply(Ev::Hold(Tid::Ctx));
        }
        for i in 0..n {
            sys.apply(Ev::Start(specs[i % specs.len()].clone()));
            if sys.dead {
                return sys.report(ex, &[]);
            }
        }
        if held {
            sys.apply(Ev::Release(Tid::Ctx));
            if sys.dead {
                return sys.report(ex, &[]);
            }
        }
        let idx: Vec<usize> = match order {
            0 => (0..n).rev().collect(),
            1 => (0..7).flat_map(|r| (0..n).filter(move |i| i % 7 == r)).collect(),
            _ => (0..n).map(|i| (i * 257) % n).collect::<Vec<_>>(),
        };
        let mut seen = vec![false; n];
        for i in idx {
            if seen[i] {
                continue;
            }
            seen[i] = true;
            if matches!(sys.m.ops[i].spec, OpSpec::Ping) {
                sys.apply(Ev::Deliver(SPacket::Pingresp));
                continue;
            }
            let tag = format!("r{}", i);
            while let Some(p) = sys.ack_for(i, if i % 5 == 0 { 0x80 } else { 0 }, &tag).or_else(|| sys.ack_for(i, 0, &tag)) {
                let fail_comp = matches!(sys.m.ops[i].st, St::AwaitComp);
                let p = if fail_comp { sys.ack_for(i, 0, &tag).unwrap() } else { p };
                sys.apply(Ev::Deliver(p));
                if sys.dead {
                    return sys.report(ex, &[]);
                }
            }
        }
        sys.finish();
        sys.events = vec![format!("{} operations outstanding from packet id {}, acknowledged in permutation {}", n, start_pid, order)];
        sys.report(ex, &["puback", "pubcomp", "suback", "unsuback", "pingresp"]);
    })
}

/// Two operations outstanding whose packet identifiers differ in exactly one bit (every bit, two base
/// values, five kind pairs, both acknowledgement orders): the correlation key must keep all 16 bits.
fn bits(name: String, params: Value) -> Scenario {
    Box::new(move |chz, ex| {
        // k == 16: the very same identifier value for two operations that expect different
        // acknowledgement types (possible after a wrap; here the counter is rewound by the hook) -
        // each must still complete only on the acknowledgement of its own type
        let k = chz.choose(17) as u16;
        let base = [1u16, 0x2aaa][chz.choose(2)];
        let other = if k == 16 { base } else { base ^ (1 << k) };
        let pair = if k == 16 { 2 + chz.choose(4) } else { chz.choose(5) };
        let first_b = chz.choose(2) == 1;
        let fail = chz.choose(2) == 1;
        let mut sys = Sys::new("C05", &name, chz);
        sys.params = params.clone();
        sys.m.check_client_acks = false;
        sys.bring_up(vec![]);
        if other == 0 {
            return sys.report(ex, &[]);
        }
        let sp = op_specs();
        let (a, b) = match pair {
            0 => (sp[0].clone(), sp[0].clone()),
            1 => (sp[1].clone(), sp[1].clone()),
            2 => (sp[2].clone(), sp[3].clone()),
            3 if k != 16 => (sp[0].clone(), sp[1].clone()),
            3 => (sp[0].clone(), sp[2].clone()),
            4 if k != 16 => (sp[2].clone(), sp[2].clone()),
            4 => (sp[3].clone(), sp[0].clone()),
            _ => (sp[1].clone(), sp[3].clone()),
        };
        sys.m.allow_pid_reuse = k == 16;
        sys.w.handle().verif_set_ids(base, 1);
        sys.events.push(format!("PresetPacketId({})", base));
        sys.apply(Ev::Start(a));
        sys.w.handle().verif_set_ids(other, 2);
        sys.events.push(format!("PresetPacketId({})", other));
        sys.apply(Ev::Start(b));
        let order = if first_b { [1usize, 0] } else { [0usize, 1] };
        // every phase of both handshakes, the chosen operation first in each round
        for round in 0..2 {
            for &i in &order {
                if sys.dead {
                    break;
                }
                let reason = if fail && round == 0 && i == 1 { 0x80 } else { 0 };
                let tag = format!("r{}", i);
                if let Some(p) = sys.ack_for(i, reason, &tag).or_else(|| sys.ack_for(i, 0, &tag)) {
                    sys.apply(Ev::Deliver(p));
                }
            }
        }
        sys.finish();
        sys.report(ex, &["puback", "pubcomp", "suback", "unsuback", "pubrec-fail"]);
    })
}

/// A sliding window: w operations outstanding for 60 rounds; every round one of them (the oldest, the
/// youngest, one in the middle - by turns) is acknowledged, with success or a failing reason, in short
/// or long form, and a new one is started. The client's bookkeeping shrinks at one end and grows at the
/// other (ring buffers wrap, indices shift); every operation completes on its own acknowledgement.
pub fn sliding(prop: &'static str, name: String, params: Value) -> Scenario {
    Box::new(move |chz, ex| {
        let w = [2usize, 3, 4, 5, 8][chz.choose(5)];
        let pubs_only = chz.choose(2) == 1;
        let tagged = chz.choose(2) == 1;
        let mut sys = Sys::new(prop, &name, chz);
        sys.params = params.clone();
        sys.m.check_client_acks = false;
        sys.bring_up(vec![]);
        let specs = op_specs();
        let mut open: Vec<usize> = vec![];
        let mut started = 0usize;
        let mut start = |sys: &mut Sys, open: &mut Vec<usize>, started: &mut usize| {
            let sp = if pubs_only { specs[*started % 2].clone() } else { specs[*started % specs.len()].clone() };
            *started += 1;
            sys.apply(Ev::Start(sp));
            open.push(sys.m.ops.len() - 1);
        };
        for _ in 0..w {
            start(&mut sys, &mut open, &mut started);
        }
        for round in 0..60usize {
            if sys.dead {
                break;
            }
            let k = match round % 3 {
                0 => open.len() - 1,
                1 => open.len() / 2,
                _ => 0,
            };
            let i = open[k];
            if matches!(sys.m.ops[i].spec, OpSpec::Ping) {
                // (pings complete in issue order: the oldest open ping is the one that completes)
                sys.apply(Ev::Deliver(SPacket::Pingresp));
                let done: Vec<usize> = open.iter().copied().filter(|&j| sys.m.ops[j].st == St::Done || matches!(sys.m.ops[j].st, St::Completing(_))).collect();
                open.retain(|j| !done.contains(j));
            } else {
                let tag = if tagged { format!("r{}", i) } else { String::new() };
                let fail = round % 4 == 3;
                let mut guard = 0;
                loop {
                    let reason = match (&sys.m.ops[i].st, fail) {
                        (St::AwaitComp, true) => 0x92,
                        (_, true) => 0x80,
                        _ => 0,
                    };
                    let Some(a) = sys.ack_for(i, reason, &tag) else { break };
                    sys.apply(Ev::Deliver(a));
                    guard += 1;
                    if sys.dead || guard > 3 {
                        break;
                    }
                }
                open.retain(|j| *j != i);
            }
            while open.len() < w && !sys.dead {
                start(&mut sys, &mut open, &mut started);
            }
        }
        sys.finish();
        sys.events = vec![format!("sliding window of {} operations ({}), 60 rounds, acknowledgements {}", w, if pubs_only { "publishes" } else { "all kinds" }, if tagged { "with content" } else { "in short form" })];
        sys.report(ex, &["puback", "pubcomp", "suback", "unsuback", "pingresp", "pubrec-fail"]);
    })
}

pub fn scenario(name: &str, params: &Value) -> Scenario {
    if name == "C05/streams" {
        return super::c15::streams("C05", name.to_string(), params.clone());
    }
    if name == "C05/sliding" {
        return sliding("C05", name.to_string(), params.clone());
    }
    if name == "C05/expired" {
        return super::c17::scenario_for("C05", name, params);
    }
    if name == "C05/bits" {
        return bits(name.to_string(), params.clone());
    }
    if name == "C05/wide" {
        return wide(name.to_string(), params.clone());
    }
    let depth = params["depth"].as_u64().unwrap_or(5) as usize;
    let params = params.clone();
    let name = name.to_string();
    Box::new(move |chz, ex| {
        let mut sys = Sys::new("C05", &name, chz);
        sys.params = params.clone();
        sys.m.check_client_acks = false;
        sys.bring_up_fl(vec![], params["flavour"].as_u64().unwrap_or(0));
        let specs = op_specs();
        for _ in 0..depth {
            if sys.dead {
                break;
            }
            let mut devs = deviations(&sys, true);
            if params["cancel"].as_bool().unwrap_or(false) {
                for i in 0..sys.m.ops.len() {
                    let o = &sys.m.ops[i];
                    // (a QoS 2 publish abandoned before its PUBREC is the recorded finding K-C15-1)
                    let q2_early = matches!(&o.spec, OpSpec::Publish(p) if p.qos() == 2)
                        && !matches!(o.st, St::AwaitComp);
                    if o.alive && o.st != St::Done && !q2_early {
                        devs.push(Ev::Cancel(i));
                    }
                }
            }
            let d = chz.deviate(1 + devs.len());
            if d > 0 {
                sys.apply(devs[d - 1].clone());
                if sys.dead {
                    break;
                }
            }
            let mut evs = vec![];
            let out = outstanding(&sys.m);
            if out.len() < 3 {
                for s in &specs {
                    let same = out
                        .iter()
                        .filter(|&&i| kind_of(&sys.m.ops[i].spec) == kind_of(s))
                        .count();
                    if same < 2 {
                        evs.push(Ev::Start(s.clone()));
                    }
                }
            }
            if params["untagged"].as_bool().unwrap_or(false) {
                evs.extend(super::common::broker_acks_ext(&sys, true, false, false));
            } else if params["nomatch"].as_bool().unwrap_or(false) || params["longtag"].as_bool().unwrap_or(false) {
                // also the success reason that is not zero (0x10 "no matching subscribers"): a PUBACK /
                // PUBREC with it is an ordinary success - the QoS 2 exchange goes on to its PUBCOMP
                evs.extend(super::common::broker_acks_ext(&sys, true, true, true));
            } else {
                evs.extend(broker_events(&sys, true));
            }
            if evs.is_empty() {
                break;
            }
            let i = chz.choose(evs.len());
            sys.apply(evs[i].clone());
        }
        sys.finish();
        sys.report(ex, &["puback", "pubcomp", "suback", "unsuback", "pingresp", "pubrec-fail"]);
    })
}
