//! C10 - Receive Maximum is never exceeded; the send quota neither leaks nor overflows.

use super::common::*;
use super::*;
use crate::model::*;
use crate::spec::*;
use crate::sys::*;
use pvcore::refcodec::SPacket;

pub fn check(tier: Tier) -> Check {
    let mut parts = vec![];
    for r in [1u64, 2, 3] {
        parts.push(Part::new(
            "C10/quota",
            json!({"depth": tier.pick(6, 8) - (r as usize).min(2) + 1, "r": r}),
            tier.pick(0, 1),
            tier.pick(25, 400),
        ));
    }
    parts.push(Part::new("C10/quota", json!({"depth": tier.pick(4, 5), "r": 1}), 2, tier.pick(20, 300)));
    // Session Present = 1 and a CONNACK / CONNECT full of other settings: R must be honoured all the same
    for r in [1u64, 2, 3] {
        parts.push(Part::new("C10/quota", json!({"depth": tier.pick(5, 7), "r": r, "flavour": 1}), 0, tier.pick(25, 400)));
    }
    // R announced in a CONNACK that arrives through authorize()
    for r in [1u64, 2] {
        parts.push(Part::new("C10/quota", json!({"depth": tier.pick(5, 6), "r": r, "flavour": 2}), 0, tier.pick(25, 400)));
    }
    // inbound QoS 1 / QoS 2 deliveries (with their PUBREL) between the client's own publishes
    parts.push(Part::new("C10/quota", json!({"depth": tier.pick(5, 6), "r": 1, "inbound": true}), 0, tier.pick(25, 400)));
    parts.push(Part::new("C10/quota", json!({"depth": tier.pick(4, 5), "r": 2, "inbound": true}), 1, tier.pick(25, 400)));
    // re-authentication (authorize() with reason 0x19, answered by AUTH) between the CONNACK and run()
    parts.push(Part::new("C10/quota", json!({"depth": tier.pick(4, 6), "r": 1, "flavour": 10}), 0, tier.pick(25, 400)));
    // a Maximum Packet Size as well: a locally refused oversized publish must not take a slot
    parts.push(Part::new("C10/quota", json!({"depth": tier.pick(5, 7), "r": 2, "m": 40}), 0, tier.pick(25, 400)));
    // persistent back-pressure on the write half (WriteBlock / WriteUnblock events)
    parts.push(Part::new("C10/quota", json!({"depth": tier.pick(4, 5), "r": 1, "wb": true}), 1, tier.pick(25, 400)));
    parts.push(Part::new("C10/quota", json!({"depth": tier.pick(4, 5), "r": 2, "wb": true}), 1, tier.pick(25, 400)));
    // identifier flavour: the counters start next to a boundary of their encodings (DESIGN 4)
    parts.push(Part::new("C10/quota", json!({"depth": tier.pick(5, 7), "r": 2, "ids": [65534, 1]}), 0, tier.pick(25, 400)));
    parts.push(Part::new("C10/quota", json!({"depth": tier.pick(5, 7), "r": 3, "ids": [254, 1]}), 0, tier.pick(25, 400)));
    // publishes made before connect(): they count against the quota the CONNACK announces
    parts.push(Part::new("C10/quota", json!({"depth": tier.pick(4, 6), "r": 1, "early": 3}), 0, tier.pick(25, 400)));
    parts.push(Part::new("C10/quota", json!({"depth": tier.pick(4, 6), "r": 2, "early": 3}), 0, tier.pick(25, 400)));
    // operations issued on one long-lived handle and on clones of it
    parts.push(Part::new("C10/quota", json!({"depth": tier.pick(4, 6), "r": 2, "worker": true}), 0, tier.pick(25, 400)));
    // publishes with the RETAIN flag set (the fixed-header flags must not matter)
    parts.push(Part::new("C10/quota", json!({"depth": tier.pick(4, 5), "r": 1, "retain": true}), 0, tier.pick(25, 400)));
    parts.push(Part::new("C10/quota", json!({"depth": tier.pick(4, 5), "r": 2, "retain": true}), 0, tier.pick(25, 400)));
    // one Context, two connections: R1 on the first, R on the second
    for (r1, r) in [(0u64, 1u64), (3, 1), (1, 2), (1, 3)] {
        parts.push(Part::new("C10/quota", json!({"depth": tier.pick(4, 6), "r": r, "r1": r1}), 0, tier.pick(25, 400)));
    }
    // ... the first connection ending with its quota used up, and a publish requested between the two
    for (r1, r) in [(1u64, 1u64), (2, 1), (1, 2)] {
        parts.push(Part::new("C10/quota", json!({"depth": tier.pick(3, 4), "r": r, "r1": r1, "between": true}), 0, tier.pick(25, 400)));
    }
    // across a resume (hook H1): with R = 65535 (absent / announced) the publishes re-sent on the new
    // connection and their acknowledgements must leave the quota usable - every later publish is accepted
    parts.push(Part::new("C10/resume", json!({"depth": tier.pick(4, 6), "expiry": 1000, "secs_ago": 10}), 0, tier.pick(25, 300)));
    parts.push(Part::new("C10/resume", json!({"depth": tier.pick(4, 5), "expiry": 1000, "secs_ago": 10, "r": 65535}), 0, tier.pick(25, 300)));
    parts.push(Part::new("C10/resume", json!({"depth": tier.pick(3, 4), "expiry": 0, "secs_ago": 10, "r": 65535}), 0, tier.pick(25, 300)));
    // a QoS 2 publish abandoned before its PUBREC: the exchange stays open on the server's side, so its
    // slot must not be handed out again on a successful PUBREC (only a failing one ends it)
    parts.push(Part::new("C10/abandoned", json!({}), 0, 60));
    // a publish abandoned while its request is still queued: sent all the same, one slot, freed by its late acknowledgement
    parts.push(Part::new("C10/abandoned-queued", json!({}), 0, 60));
    // two open exchanges under one identifier value (the counter rewound by the hook): two slots
    parts.push(Part::new("C10/same-id", json!({}), 0, 60));
    parts.push(Part::new("C10/fill", json!({"r": 65535}), 0, 120));
    parts.push(Part::new("C10/fill", json!({"r": 0}), 0, 120));
    parts.push(Part::new("C10/fill", json!({"r": 300}), 0, 120));
    // value flavour (DESIGN 4): the same exploration with requests / inbound messages of unusual content
    parts.push(Part::new("C10/quota", json!({"depth": tier.pick(5, 6), "r": 2, "vals": 1}), 0, tier.pick(25, 400)));
    parts.push(Part::new("C10/quota", json!({"depth": tier.pick(4, 5), "r": 1, "vals": 1}), 1, tier.pick(25, 400)));
    Check {
        also_rel: false,
        property: "C10",
        level: "model_checking",
        rule: "R in {1,2,3} (announced in a bare CONNACK, and with Session Present = 1 among many other CONNECT/CONNACK settings): all histories of QoS 0/1/2 publishes, pings, subscribes, unsubscribes and acknowledgements (0x00, 0x10 and failing, for any outstanding operation) up to the stated depth; the same on the second connection of a Context whose first connection announced a different R; R = 65535 (absent / announced) across a session resume: histories, connection loss, reconnect, the acknowledgements of the re-sent packets, a fresh publish; a QoS 2 publish abandoned (future dropped, also while still queued) before its PUBREC, R in {1,2,3}, PUBREC with 0x00 / 0x10 / failing reasons in both forms, then probe publishes: the open exchange keeps its slot; R in {65535, absent, 300}: deterministic fill - refuse - drain - refill runs through the real client; accept/refuse decisions and the wire must equal the model's; two open exchanges under one identifier value (C10/same-id); a first connection that ends with its quota used up and a publish requested before the next connect(); re-authentication between CONNACK and run() (flavour 10); retained publishes; value flavour; non-trivial = a publish was refused for quota or a slot was freed by a failing acknowledgement".into(),
        assumptions: vec!["conformant broker".into()],
        parts,
    }
}

fn fill(name: String, params: Value) -> Scenario {
    Box::new(move |chz, ex| {
        let r = params["r"].as_u64().unwrap() as u16;
        let mut sys = Sys::new("C10", &name, chz);
        sys.params = params.clone();
        sys.check_stall = true;
        sys.bring_up(if r == 0 { vec![] } else { receive_max(r) });
        let cap = if r == 0 { 65535usize } else { r as usize };
        // a cycle: fill to R (mixed QoS 1/2), one more must be refused, QoS 0 and ping still fine,
        // drain everything (every third one with a failing reason), repeat once.
        for cycle in 0..2 {
            let base = sys.m.ops.len();
            for i in 0..cap {
                let q = if i % 3 == 2 { 2 } else { 1 };
                sys.apply(Ev::Start(OpSpec::Publish(PublishSpec::simple(q, "t", b"p"))));
                if sys.dead {
                    return sys.report(ex, &[]);
                }
            }
            sys.apply(Ev::Start(OpSpec::Publish(PublishSpec::simple(1, "t", b"over"))));
            sys.apply(Ev::Start(OpSpec::Publish(PublishSpec::simple(2, "t", b"over"))));
            sys.apply(Ev::Start(OpSpec::Publish(PublishSpec::simple(0, "t", b"free"))));
            sys.apply(Ev::Start(OpSpec::Ping));
            sys.apply(Ev::Deliver(SPacket::Pingresp));
            if sys.dead {
                return sys.report(ex, &[]);
            }
            for i in 0..cap {
                let op = base + i;
                let fail = (i + cycle) % 3 == 0;
                loop {
                    let reason = match (&sys.m.ops[op].st, fail) {
                        (St::AwaitComp, true) => 0x92,
                        (_, true) => 0x80,
                        _ => 0,
                    };
                    match sys.ack_for(op, reason, "") {
                        Some(p) => sys.apply(Ev::Deliver(p)),
                        None => break,
                    }
                    if sys.dead {
                        return sys.report(ex, &[]);
                    }
                }
            }
            if sys.m.quota_used != 0 {
                panic!("harness: model quota not drained");
            }
        }
        sys.finish();
        sys.report(ex, &["quota-refusal"]);
    })
}

fn abandoned(name: String, params: Value) -> Scenario {
    Box::new(move |chz, ex| {
        let r = 1 + chz.choose(3) as u16;
        let reason = [0u8, 0x10, 0x80, 0x97][chz.choose(4)];
        let held_ctx = chz.choose(2) == 1;
        let form_long = chz.choose(2) == 1;
        let mut sys = Sys::new("C10", &name, chz);
        sys.params = params.clone();
        sys.m.check_client_acks = false;
        sys.m.tolerate_abandoned_q2 = true;
        sys.bring_up(receive_max(r));
        for _ in 1..r {
            sys.apply(Ev::Start(OpSpec::Publish(PublishSpec::simple(1, "t/f", b"fill"))));
        }
        if held_ctx {
            // the request is still queued when its future goes away; it is sent all the same
            sys.apply(Ev::Hold(crate::world::Tid::Ctx));
        }
        sys.apply(Ev::Start(OpSpec::Publish(PublishSpec::simple(2, "t/q", b"abandoned"))));
        let op = sys.m.ops.len() - 1;
        sys.apply(Ev::Cancel(op));
        if held_ctx {
            sys.apply(Ev::Release(crate::world::Tid::Ctx));
        }
        if sys.dead {
            return sys.report(ex, &[]);
        }
        if let Some(rec) = sys.ack_for(op, reason, if form_long { "late" } else { "" }) {
            sys.apply(Ev::Deliver(rec));
        }
        // the probe: refused while the abandoned exchange is open, accepted after a failing PUBREC
        sys.apply(Ev::Start(OpSpec::Publish(PublishSpec::simple(1, "t/p", b"probe"))));
        sys.apply(Ev::Start(OpSpec::Publish(PublishSpec::simple(0, "t/z", b"free"))));
        // one of the fillers completes: exactly one more publish fits
        if r > 1 && !sys.dead {
            if let Some(a) = sys.ack_for(0, 0, "") {
                sys.apply(Ev::Deliver(a));
            }
            sys.apply(Ev::Start(OpSpec::Publish(PublishSpec::simple(2, "t/p2", b"probe2"))));
            sys.apply(Ev::Start(OpSpec::Publish(PublishSpec::simple(1, "t/p3", b"probe3"))));
        }
        sys.finish();
        sys.report(ex, &["abandoned-q2-open", "quota-refusal"]);
    })
}

/// Outside C11's premise (65535 identifiers handed out while an exchange is open) the counter comes
/// round to an identifier that is still in use. Here the hook rewinds it instead. C10 has no such
/// premise: an exchange takes one slot whatever identifier it travels under, so R outstanding
/// publishes - two of them under the same identifier - exhaust the quota like any other R.
pub fn same_id(prop: &'static str, name: String, params: Value) -> Scenario {
    Box::new(move |chz, ex| {
        let r = 2 + chz.choose(3) as u16;
        let q_open = 1 + chz.choose(2) as u8;
        let q_dup = 1 + chz.choose(2) as u8;
        let dup_at = chz.choose((r - 1) as usize); // which of the later fillers repeats the identifier
        let mut sys = Sys::new(prop, &name, chz);
        sys.params = params.clone();
        sys.m.check_client_acks = false;
        sys.m.allow_pid_reuse = true;
        sys.bring_up(receive_max(r));
        sys.w.handle().verif_set_ids(7, 1);
        sys.events.push("PresetPacketId(7)".into());
        sys.apply(Ev::Start(OpSpec::Publish(PublishSpec::simple(q_open, "t/open", b"open"))));
        for i in 0..(r - 1) as usize {
            if i == dup_at {
                sys.w.handle().verif_set_ids(7, 1);
                sys.events.push("PresetPacketId(7)  [the counter has come round]".into());
                sys.apply(Ev::Start(OpSpec::Publish(PublishSpec::simple(q_dup, "t/dup", b"same identifier"))));
            } else {
                sys.apply(Ev::Start(OpSpec::Publish(PublishSpec::simple(1, "t/f", b"fill"))));
            }
        }
        // R exchanges are open: the next QoS>0 publish is refused, a QoS 0 publish is not
        sys.apply(Ev::Start(OpSpec::Publish(PublishSpec::simple(1, "t/p", b"probe"))));
        sys.apply(Ev::Start(OpSpec::Publish(PublishSpec::simple(0, "t/z", b"free"))));
        sys.finish();
        sys.report(ex, &["quota-refusal"]);
    })
}

pub fn scenario(name: &str, params: &Value) -> Scenario {
    if name == "C10/abandoned-queued" {
        return super::c15::abandoned_queued("C10", name.to_string(), params.clone());
    }
    if name == "C10/same-id" {
        return same_id("C10", name.to_string(), params.clone());
    }
    if name == "C10/abandoned" {
        return abandoned(name.to_string(), params.clone());
    }
    if name == "C10/resume" {
        return super::c17::scenario_for("C10", name, params);
    }
    if name == "C10/fill" {
        return fill(name.to_string(), params.clone());
    }
    let depth = params["depth"].as_u64().unwrap_or(5) as usize;
    let r = params["r"].as_u64().unwrap_or(1) as u16;
    let params = params.clone();
    let name = name.to_string();
    Box::new(move |chz, ex| {
        let mut sys = Sys::new("C10", &name, chz);
        sys.params = params.clone();
        let m = params["m"].as_u64();
        let mut cprops = receive_max(r);
        if let Some(m) = m {
            cprops.push(pvcore::refcodec::Prop::u32(pvcore::refcodec::P_MAXIMUM_PACKET_SIZE, m as u32));
        }
        if let Some(r1) = params["r1"].as_u64() {
            // a second connection of the same Context: the quota is the one its CONNACK announces
            sys.auto_exit = false;
            sys.bring_up(if r1 == 0 { vec![] } else { receive_max(r1 as u16) });
            let between = params["between"].as_bool().unwrap_or(false);
            if between {
                // the first connection ends with exactly R1 publishes unacknowledged (its quota used up) -
                // by end-of-stream or by the user's DISCONNECT -, and a publish is requested BEFORE the
                // next connect(): it is carried by the second connection and counts against ITS quota
                for _ in 0..r1 {
                    sys.apply(Ev::Start(OpSpec::Publish(PublishSpec::simple(1, "t", b"unacknowledged"))));
                }
                if chz.choose(2) == 0 {
                    sys.apply(Ev::Eof);
                } else {
                    sys.apply(Ev::Start(OpSpec::Disconnect(DisconnectSpec::default())));
                }
                sys.apply(Ev::Start(OpSpec::Publish(PublishSpec::simple(1 + chz.choose(2) as u8, "t", b"between"))));
                // (no disconnection is recorded, so this is no resume: the exchanges of the first
                // connection are not continued and hold no slot of the new connection)
                // the broker of the new connection knows nothing of them and never acknowledges them
                sys.m.quota_used = 0;
                for o in sys.m.ops.iter_mut() {
                    if o.inflight {
                        o.inflight = false;
                        o.lenient = true;
                        o.st = St::Done;
                    }
                }
            } else {
                for q in [1u8, 2] {
                    sys.apply(Ev::Start(OpSpec::Publish(PublishSpec::simple(q, "t", b"first"))));
                    let o = sys.m.ops.len() - 1;
                    while let Some(p) = sys.ack_for(o, 0, "") {
                        sys.apply(Ev::Deliver(p));
                        if sys.dead {
                            break;
                        }
                    }
                }
                sys.apply(Ev::Eof);
            }
            if !sys.dead {
                sys.events.push("Reconnect".into());
                sys.classes.push("Reconnect".into());
                sys.w.new_wire();
                sys.m.new_wire();
                sys.connect_with(
                    ConnectSpec::default(),
                    SPacket::Connack {
                        session_present: false,
                        reason: 0,
                        props: cprops,
                    },
                );
            }
            if !sys.dead {
                sys.start_run();
            }
        } else {
            sys.bring_up_fl(cprops, params["flavour"].as_u64().unwrap_or(0));
        }
        let mut specs = vec![
            OpSpec::Publish(PublishSpec::simple(0, "t", b"q0")),
            OpSpec::Publish(PublishSpec::simple(1, "t", b"q1")),
            OpSpec::Publish(PublishSpec::simple(2, "t", b"q2")),
            OpSpec::Ping,
            // other operations neither take nor give back a slot
            OpSpec::Subscribe(SubscribeSpec::simple("s")),
            OpSpec::Unsubscribe(UnsubscribeSpec::simple("s")),
        ];
        if params["retain"].as_bool().unwrap_or(false) {
            // the flag bits of the fixed header must not matter for the accounting
            for q in [1u8, 2] {
                let mut p = PublishSpec::simple(q, "t/r", b"retained");
                p.retain = Some(true);
                specs.push(OpSpec::Publish(p));
            }
        }
        if m.is_some() {
            // (refused for their size: neither takes nor gives back a slot)
            specs.push(OpSpec::Unsubscribe(UnsubscribeSpec::simple(&"u".repeat(60))));
            specs.push(OpSpec::Subscribe(SubscribeSpec::simple(&"s".repeat(60))));
            specs.push(OpSpec::Publish(PublishSpec::simple(1, "t", &[b'x'; 100])));
            specs.push(OpSpec::Publish(PublishSpec::simple(2, "t", &[b'y'; 100])));
        }
        let devs = |s: &Sys| sched_deviations(s, true, false);
        let evs = |s: &Sys| {
            let mut e = vec![];
            if outstanding(&s.m).len() < (r as usize + 2) {
                e.extend(specs.iter().cloned().map(Ev::Start));
            }
            e.extend(broker_acks_ext(s, true, false, true));
            if s.params["inbound"].as_bool().unwrap_or(false) {
                // the broker's own deliveries (QoS 1, and a QoS 2 exchange up to its PUBREL / PUBCOMP) use
                // the same identifier values in the other direction: they are no business of the send quota
                let pid = 1u16;
                let open = s.m.unreleased.contains(&pid)
                    || s.m.inbox.iter().any(|p| matches!(p, SPacket::Publish { qos: 2, .. }));
                if open {
                    if !s.m.inbox.iter().any(|p| matches!(p, SPacket::Ack { ty: 6, .. })) {
                        e.push(Ev::Deliver(pubrel_in(pid)));
                    }
                } else {
                    e.push(Ev::Deliver(inbound(2, false, pid, &[], "in2")));
                }
                e.push(Ev::Deliver(inbound(1, false, 2, &[], "in1")));
            }
            e
        };
        drive(&mut sys, chz, depth, &devs, &evs);
        sys.report(ex, &["quota-refusal", "pubrec-fail"]);
    })
}
