//! Per-property checks: scenario alphabets, bounds and oracles.

use pvcore::explore::{explore, Chz, Exec, Limits, Stats};
use pvcore::report::*;
use serde_json::{json, Value};

pub mod common;
pub mod c01;
pub mod c02;
pub mod c03;
pub mod c04;
pub mod c05;
pub mod c06;
pub mod c07;
pub mod c08;
pub mod c09;
pub mod c10;
pub mod c11;
pub mod c12;
pub mod c13;
pub mod c14;
pub mod c15;
pub mod c16;
pub mod c17;

#[derive(Clone, Copy, PartialEq, Eq, Debug)]
pub enum Tier {
    Quick,
    Thorough,
}
impl Tier {
    pub fn name(&self) -> &'static str {
        match self {
            Tier::Quick => "quick",
            Tier::Thorough => "thorough",
        }
    }
    pub fn pick<T>(&self, q: T, t: T) -> T {
        match self {
            Tier::Quick => q,
            Tier::Thorough => t,
        }
    }
}

pub type Scenario = Box<dyn Fn(&Chz, &mut Exec) + Sync>;

/// One bounded exploration of one scenario.
pub struct Part {
    pub scenario: String,
    pub params: Value,
    pub dev_budget: u32,
    pub wall_s: u64,
}

impl Part {
    pub fn new(scenario: &str, params: Value, dev_budget: u32, wall_s: u64) -> Part {
        let mut params = params;
        params["dev_budget"] = json!(dev_budget);
        Part {
            scenario: scenario.to_string(),
            params,
            dev_budget,
            wall_s,
        }
    }
}

pub struct Check {
    /// additionally run the same parts in the wrapping-arithmetic build (child process)
    pub also_rel: bool,
    pub property: &'static str,
    pub level: &'static str,
    pub rule: String,
    pub assumptions: Vec<String>,
    pub parts: Vec<Part>,
}

pub fn scenario_by_name(name: &str, params: &Value) -> Scenario {
    let prop = name.split('/').next().unwrap_or("");
    match prop {
        "C01" => c01::scenario(name, params),
        "C02" => c02::scenario(name, params),
        "C03" => c03::scenario(name, params),
        "C04" => c04::scenario(name, params),
        "C05" => c05::scenario(name, params),
        "C06" => c06::scenario(name, params),
        "C07" => c07::scenario(name, params),
        "C08" => c08::scenario(name, params),
        "C09" => c09::scenario(name, params),
        "C10" => c10::scenario(name, params),
        "C11" => c11::scenario(name, params),
        "C12" => c12::scenario(name, params),
        "C13" => c13::scenario(name, params),
        "C14" => c14::scenario(name, params),
        "C15" => c15::scenario(name, params),
        "C16" => c16::scenario(name, params),
        "C17" => c17::scenario(name, params),
        _ => {
            eprintln!("MACHINERY: unknown scenario {}", name);
            std::process::exit(2);
        }
    }
}

pub fn check_by_id(id: &str, tier: Tier) -> Check {
    match id {
        "C01" => c01::check(tier),
        "C02" => c02::check(tier),
        "C03" => c03::check(tier),
        "C04" => c04::check(tier),
        "C05" => c05::check(tier),
        "C06" => c06::check(tier),
        "C07" => c07::check(tier),
        "C08" => c08::check(tier),
        "C09" => c09::check(tier),
        "C10" => c10::check(tier),
        "C11" => c11::check(tier),
        "C12" => c12::check(tier),
        "C13" => c13::check(tier),
        "C14" => c14::check(tier),
        "C15" => c15::check(tier),
        "C16" => c16::check(tier),
        "C17" => c17::check(tier),
        _ => {
            eprintln!("MACHINERY: no check for property {}", id);
            std::process::exit(2);
        }
    }
}

pub fn run_check(id: &str, tier: Tier) -> i32 {
    let chk = check_by_id(id, tier);
    let is_child = std::env::var("PV_CHILD").is_ok();
    // watchdog: a hang in the machinery is a machinery error, never a verdict
    let budget: u64 = chk.parts.iter().map(|p| p.wall_s).sum::<u64>() * 2 + 300;
    std::thread::spawn(move || {
        std::thread::sleep(std::time::Duration::from_secs(budget));
        eprintln!("MACHINERY: watchdog: check did not finish within {} s", budget);
        std::process::exit(2);
    });
    // a poll of library code that never returns is a violation, found by a monitor thread
    pvcore::hang::start_monitor();
    let mut total = Stats::default();
    let mut parts_json = vec![];
    let t0 = std::time::Instant::now();
    // debugging aid (never used by registered commands): PV_ONLY_PART=<substring of the scenario name>
    let only = std::env::var("PV_ONLY_PART").ok();
    for p in &chk.parts {
        if let Some(o) = &only {
            // alternatives separated by '|', matched against "<scenario> <params>"
            let hay = format!("{} {}", p.scenario, p.params);
            if !o.split('|').any(|alt| hay.contains(alt)) {
                continue;
            }
        }
        let sc = scenario_by_name(&p.scenario, &p.params);
        {
            let mut pp = p.params.clone();
            pp["dev_budget"] = json!(p.dev_budget);
            pvcore::hang::set_context(chk.property, &p.scenario, &pp);
        }
        let mut lim = Limits::new(p.dev_budget, p.wall_s, tier == Tier::Quick);
        if p.params["seq"].as_bool().unwrap_or(false) {
            // executions that move hundreds of MiB each: one at a time
            lim.threads = 1;
        }
        lim.known = load_findings()
            .into_iter()
            .filter(|f| f.status == "open" && f.property == chk.property)
            .map(|f| (f.rule, f.witness))
            .collect();
        let st = explore(&lim, |c, e| sc(c, e));
        eprintln!(
            "[{}] part {} {}: executions={} transitions={} states={} traces={} nontrivial={} max_depth={} violations={} capped={} wall={:.1}s",
            id,
            p.scenario,
            p.params,
            st.executions,
            st.transitions,
            st.states.len(),
            st.traces.len(),
            st.nontrivial_traces.len(),
            st.max_depth,
            st.violations.len(),
            st.capped,
            st.wall.as_secs_f64()
        );
        parts_json.push(json!({
            "scenario": p.scenario,
            "params": p.params,
            "executions": st.executions,
            "transitions": st.transitions,
            "distinct_traces": st.traces.len(),
            "completed": !st.capped,
            "wall_s": st.wall.as_secs_f64(),
        }));
        // a "gate" part decides the check on its own when it finds a violation: the parts behind it are
        // not run (they could not be trusted - e.g. executions that influence each other through state
        // shared between clients would show as nondeterminism there)
        let gate_hit = p.params["gate"].as_bool().unwrap_or(false) && !st.violations.is_empty();
        total.merge(st);
        if gate_hit {
            break;
        }
    }
    // the same parts in the build without overflow checks / debug assertions
    let mut rel_summary = json!(null);
    let mut child_code = 0;
    if chk.also_rel && !is_child {
        match std::env::var("PV_REL_BIN") {
            Ok(bin) => {
                let out = std::process::Command::new(&bin)
                    .args(["check", id, "--tier", tier.name()])
                    .env("PV_CHILD", "1")
                    .output();
                match out {
                    Ok(o) => {
                        let text = String::from_utf8_lossy(&o.stdout).to_string();
                        let hang = text.contains("/hang-in-poll");
                        for l in text.lines() {
                            if let Some(j) = l.strip_prefix("CHILD-SUMMARY ") {
                                rel_summary = serde_json::from_str(j).unwrap_or(json!(null));
                            } else if l.starts_with("VIOLATION") || l.starts_with("  ") {
                                println!("{}", l);
                            } else if l.starts_with("KNOWN-FINDING") {
                                println!("{} [wrapping-arithmetic build]", l);
                            }
                        }
                        eprint!("{}", String::from_utf8_lossy(&o.stderr).replace("[C", "[rel C"));
                        child_code = o.status.code().unwrap_or(2);
                        if hang && child_code == 1 {
                            // the child stopped at once (a poll that never returns): no summary
                            rel_summary = json!({"stopped": "hang-in-poll"});
                        }
                        if rel_summary.is_null() || child_code >= 2 {
                            eprintln!("MACHINERY: the wrapping-arithmetic child run failed (exit {:?})", o.status);
                            std::process::exit(2);
                        }
                    }
                    Err(e) => {
                        eprintln!("MACHINERY: cannot run {}: {}", bin, e);
                        std::process::exit(2);
                    }
                }
            }
            Err(_) => {
                eprintln!("MACHINERY: PV_REL_BIN is not set (run through ./check)");
                std::process::exit(2);
            }
        }
    }
    total.wall = t0.elapsed();
    let outcome = triage(&total.violations);
    let exhaustive = !total.capped && outcome.unknown.is_empty() && outcome.known.is_empty();
    let meta = EvidenceMeta {
        property: chk.property,
        tier: tier.name(),
        level: chk.level,
        rule: chk.rule.clone(),
        bounds: json!({ "parts": parts_json }),
        assumptions: chk.assumptions.clone(),
        exhaustive,
        extra: json!({"wrapping_arithmetic_build": rel_summary, "build": if is_child { "rel (overflow checks off)" } else { "chk (overflow checks on)" }}),
    };
    if is_child {
        println!(
            "CHILD-SUMMARY {}",
            json!({
                "executions": total.executions, "transitions": total.transitions,
                "evaluations": total.evaluations, "distinct_traces": total.traces.len(),
                "capped": total.capped, "violations": outcome.unknown.len(),
                "known_findings_seen": outcome.known.iter().map(|(f, _)| f.id.clone()).collect::<Vec<_>>(),
            })
        );
    } else if only.is_none() {
        // (a filtered run is a debugging aid: it never rewrites the evidence file)
        write_evidence(&meta, &total, &outcome);
    }
    let code = verdict(chk.property, &outcome);
    code.max(child_code)
}
