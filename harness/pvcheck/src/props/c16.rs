//! C16 - progress relies only on wakeups; spurious polls have no effect.
//!
//! Every script of the bounded exploration is executed under the wake-only discipline (baseline) and
//! then replayed under: an additional sweep polling every task after every event; a spurious poll
//! inserted at every position for every task; each x {whole-packet, 1-byte, 2/3/5-byte re-chunked reads (also of two packets arriving together)} x {accept-all,
//! 1-byte, Pending-before-every write}. All per-channel observation traces must equal the baseline's
//! and the reference model must agree at every quiescent point of every run.

use super::common::*;
use super::*;
use crate::model::*;
use crate::spec::*;
use crate::sys::*;
use crate::wire::WriteMode;
use crate::world::{Ob, Tid};
use pvcore::explore::{Chooser, Violation};
use pvcore::refcodec::SPacket;

pub fn check(tier: Tier) -> Check {
    let parts = vec![
        Part::new(
            "C16/disciplines",
            json!({"depth": tier.pick(4, 5), "pairs": tier.pick(false, true)}),
            0,
            tier.pick(45, 900),
        ),
        // scripts that end in a transport fault (end-of-stream, read error - permanent or transient - of
        // three io::ErrorKinds): run() returns under every discipline alike
        Part::new("C16/disciplines", json!({"depth": tier.pick(3, 4), "pairs": false, "faults": true}), 0, tier.pick(45, 600)),
        // an extra poll of the context task while a fragment of the next packet sits behind a big one
        Part::new("C16/after-big", json!({"sizes": [9000, 70_000]}), 0, 120),
        // a stream fed with repetitions of a QoS 1 / QoS 2 message between other messages
        Part::new("C16/stream-repeat", json!({}), 0, 60),
        // one big outbound packet under every write mode
        Part::new("C16/bigwrite", json!({}), 0, 120),
        // a resumed session with 17 .. 300 packets to re-send: all of them go out on wakeups alone
        Part::new("C16/bulk", json!({}), 0, 120),
        // real time passes on a connection with a keep-alive (the one place where the wall clock could matter)
        Part::new("C16/idle", json!({}), 0, 60),
    ];
    Check {
        also_rel: true,
        property: "C16",
        level: "model_checking",
        rule: "every event script (operation starts, acknowledgements, subscribe/stream/inbound message) up to the stated depth x polling discipline {wake-only, sweep of all tasks after every event, one spurious poll inserted at every position for every task} x {whole-packet, 1-byte, 2-, 3-, 5-byte re-chunked reads} x {accept-all, 1-byte, Pending-first, half-then-Pending writes}; scripts include two packets arriving in one read and a packet with a two-byte remaining length; evaluations counts single runs; (C16/bulk) 17 .. 300 unfinished handshakes re-sent on a resumed session under three write modes; (C16/idle) 1.3 s of real time on a connection with a keep-alive, then spurious polls; non-trivial = a script in which at least one operation completed through an acknowledgement".into(),
        assumptions: vec!["conformant broker".into()],
        parts,
    }
}

fn channel_trace(sys: &Sys) -> String {
    let log = sys.w.obs_since(0);
    let mut wire = String::new();
    // PUBREL packets form a channel of their own, as in the model (section 3.4): they are written by the
    // publish() future's request (or by the context), i.e. by another task than the acknowledgements
    // around them, and where they stand among those depends on when the transport lets a write through -
    // which is the transport's timing, not the polling discipline C16 is about
    let mut rels = String::new();
    let mut len = String::new();
    let mut ops: Vec<String> = vec![String::new(); sys.w.ops.len()];
    let mut streams: Vec<String> = vec![String::new(); sys.w.streams.len()];
    let mut ctx = String::new();
    for o in &log {
        match o {
            Ob::WireLen(n) => len = format!("{}B:", n),
            Ob::Wire(p) => {
                let ch = if matches!(p, pvcore::refcodec::CPacket::Pubrel(_)) { &mut rels } else { &mut wire };
                ch.push_str(&len);
                ch.push_str(&format!("{:?};", p));
                len.clear();
            }
            Ob::WireErr(e) => wire.push_str(&format!("ERR {};", e)),
            Ob::Done { op, res } => ops[*op].push_str(res),
            Ob::Item { stream, dig } => streams[*stream].push_str(&format!("{};", dig)),
            Ob::StreamEnd { stream } => streams[*stream].push_str("END;"),
            Ob::Ctx { cmd, res } => ctx.push_str(&format!("{}={};", cmd, res)),
            Ob::Panic { task, msg } => ctx.push_str(&format!("PANIC {} {};", task, msg)),
            Ob::Broken { rule, detail } => ctx.push_str(&format!("BROKEN {} {};", rule, detail)),
        }
    }
    format!("W[{}] R[{}] O{:?} S{:?} C[{}]", wire, rels, ops, streams, ctx)
}

#[derive(Clone, Copy, Debug)]
struct Mode {
    chunk: Option<usize>,
    bytewise: bool,
    write: WriteMode,
    sweep: bool,
    kind: std::io::ErrorKind,
}

fn run_script(
    name: &str,
    script: &[Ev],
    mode: Mode,
    spurious: Option<(usize, Tid)>,
    spurious2: Option<(usize, Tid)>,
) -> (String, Vec<Violation>, bool) {
    let chz = Chooser::new(vec![], 0);
    let mut sys = Sys::new("C16", name, &chz);
    sys.params = json!({"mode": format!("{:?}", mode), "spurious": format!("{:?}", spurious)});
    sys.m.check_client_acks = true;
    sys.bytewise_reads = mode.bytewise;
    sys.read_chunk = mode.chunk;
    sys.sweep = mode.sweep;
    sys.set_write_mode(mode.write);
    sys.w.set_err_kinds(mode.kind, mode.kind);
    sys.bring_up(vec![]);
    let mut applicable = spurious.is_none();
    for (i, ev) in script.iter().enumerate() {
        if sys.dead {
            break;
        }
        for sp in [spurious, spurious2].iter().flatten() {
            if sp.0 == i {
                let t = sp.1;
                // (a task that the script holds back is, by definition, not polled)
                let exists = match t {
                    Tid::Ctx => sys.w.ctx.alive() && !sys.w.ctx.held,
                    Tid::Op(k) => k < sys.w.ops.len() && sys.w.ops[k].alive() && !sys.w.ops[k].held,
                    Tid::Stream(k) => k < sys.w.streams.len() && sys.w.streams[k].alive() && !sys.w.streams[k].held,
                };
                if exists {
                    applicable = true;
                    sys.apply(Ev::Spurious(t));
                }
            }
        }
        sys.apply(ev.clone());
    }
    sys.finish();
    let tr = channel_trace(&sys);
    (tr, sys.violations, applicable)
}

/// Keep Alive 1 s (requested in CONNECT / imposed by the CONNACK / both), 1.3 s of real time without
/// any traffic, then an unrequested poll of every task: nothing may be written or completed by it
/// (the library has no timer of its own; anything it wants to do later needs a wakeup).
fn idle(name: String, params: Value) -> Scenario {
    Box::new(move |chz, ex| {
        let how = chz.choose(3);
        let mut sys = Sys::new("C16", &name, chz);
        sys.params = params.clone();
        let spec = ConnectSpec { keep_alive: if how != 1 { Some(1) } else { None }, ..Default::default() };
        let props = if how != 0 { vec![pvcore::refcodec::Prop::u16(pvcore::refcodec::P_SERVER_KEEP_ALIVE, 1)] } else { vec![] };
        sys.connect_with(spec, SPacket::Connack { session_present: false, reason: 0, props });
        if !sys.dead {
            sys.start_run();
        }
        sys.apply(Ev::Start(OpSpec::Subscribe(SubscribeSpec::simple("s/idle"))));
        if sys.dead {
            return sys.report(ex, &[]);
        }
        let ack = sys.ack_for(0, 0, "").unwrap();
        sys.apply(Ev::Deliver(ack));
        sys.apply(Ev::TakeStream(0));
        sys.apply(Ev::Start(OpSpec::Publish(PublishSpec::simple(1, "t/idle", b"pending"))));
        sys.events.push("(1.3 s of real time pass)".into());
        std::thread::sleep(std::time::Duration::from_millis(1300));
        sys.apply(Ev::Spurious(Tid::Ctx));
        sys.apply(Ev::Spurious(Tid::Op(1)));
        sys.apply(Ev::Spurious(Tid::Stream(0)));
        sys.apply(Ev::Spurious(Tid::Ctx));
        if let Some(a) = sys.ack_for(1, 0, "") {
            sys.apply(Ev::Deliver(a));
        }
        sys.finish();
        sys.m.hits.push("puback");
        sys.report(ex, &["puback"]);
    })
}

/// One big outbound packet (70 000 .. 1 100 000 bytes) under every write mode, wake-only: however the
/// client cuts a big packet up for writing, every Pending on the way is backed by a wakeup.
fn bigwrite(name: String, params: Value) -> Scenario {
    Box::new(move |chz, ex| {
        let size = [70_000usize, 140_000, 1_100_000][chz.choose(3)];
        let q = chz.choose(3) as u8;
        let wmode = chz.choose(4);
        let mut sys = Sys::new("C16", &name, chz);
        sys.params = params.clone();
        sys.bring_up(vec![]);
        sys.set_write_mode(match wmode {
            0 => crate::wire::WriteMode::All,
            1 => crate::wire::WriteMode::PendingEach,
            2 => crate::wire::WriteMode::HalfThenPending,
            _ => crate::wire::WriteMode::All,
        });
        if wmode == 3 {
            // (a transport that takes 4 KiB at a time would need ~270 writes for the biggest packet;
            // the one-byte mode is left to the small packets)
            sys.w.wire.borrow_mut().max_accept = Some(4096);
        }
        sys.apply(Ev::Start(OpSpec::Publish(PublishSpec::simple(q, "t/big", &vec![0x42u8; size]))));
        sys.apply(Ev::Start(OpSpec::Ping));
        for i in 0..2 {
            while let Some(a) = sys.ack_for(i, 0, "") {
                sys.apply(Ev::Deliver(a));
                if sys.dead {
                    break;
                }
            }
        }
        if !sys.dead && !sys.m.pings.is_empty() {
            sys.apply(Ev::Deliver(SPacket::Pingresp));
        }
        sys.finish();
        sys.events.truncate(6);
        sys.report(ex, &["qos0-written", "qos12-written"]);
    })
}

/// A stream that gets a QoS 1 message, its repetition(s) by the broker (DUP = 1, same identifier), and
/// more messages - one read each, or all in one read; wake-only, with and without a spurious poll of the
/// stream in between: every copy is an item, and nothing parks the stream without a wakeup.
fn stream_repeat(name: String, params: Value) -> Scenario {
    Box::new(move |chz, ex| {
        let copies = 1 + chz.choose(2);
        let batch = chz.choose(2) == 1;
        let spurious = chz.choose(2) == 1;
        let q = 1 + chz.choose(2) as u8;
        let mut sys = Sys::new("C16", &name, chz);
        sys.params = params.clone();
        sys.m.check_client_acks = false;
        sys.bring_up(vec![]);
        sys.apply(Ev::Start(OpSpec::Subscribe(SubscribeSpec::simple("s/r"))));
        if sys.dead {
            return sys.report(ex, &[]);
        }
        let ack = sys.ack_for(0, 0, "").unwrap();
        sys.apply(Ev::Deliver(ack));
        sys.apply(Ev::TakeStream(0));
        if sys.dead {
            return sys.report(ex, &[]);
        }
        let id = sys.m.subs[0].sub_id.unwrap();
        let mut msgs = vec![super::common::inbound(q, false, 77, &[id], "first")];
        for _ in 0..copies {
            // (QoS 2: the copy is a re-delivery and is not yielded; QoS 1: every copy is a message)
            msgs.push(super::common::inbound(q, true, 77, &[id], "first"));
        }
        msgs.push(super::common::inbound(1, false, 78, &[id], "second"));
        msgs.push(super::common::inbound(0, false, 0, &[id], "third"));
        if batch {
            sys.apply(Ev::DeliverBatch(msgs));
        } else {
            for m in msgs {
                sys.apply(Ev::Deliver(m));
                if spurious {
                    sys.apply(Ev::Spurious(Tid::Stream(0)));
                }
            }
        }
        sys.finish();
        sys.report(ex, &["stream-item"]);
    })
}

pub fn scenario(name: &str, params: &Value) -> Scenario {
    if name == "C16/stream-repeat" {
        return stream_repeat(name.to_string(), params.clone());
    }
    if name == "C16/bigwrite" {
        return bigwrite(name.to_string(), params.clone());
    }
    if name == "C16/bulk" {
        return super::c17::bulk("C16", name.to_string(), params.clone());
    }
    if name == "C16/idle" {
        return idle(name.to_string(), params.clone());
    }
    if name == "C16/after-big" {
        return super::c03::after_big("C16", name.to_string(), params.clone());
    }
    let depth = params["depth"].as_u64().unwrap_or(3) as usize;
    let pairs = params["pairs"].as_bool().unwrap_or(false);
    let params = params.clone();
    let name = name.to_string();
    Box::new(move |chz, ex| {
        // ---- baseline: wake-only, whole packets, accept-all; the script is chosen here
        let mut sys = Sys::new("C16", &name, chz);
        sys.params = params.clone();
        let faults = params["faults"].as_bool().unwrap_or(false);
        let kind = if faults {
            [std::io::ErrorKind::WouldBlock, std::io::ErrorKind::Interrupted, std::io::ErrorKind::ConnectionReset][chz.choose(3)]
        } else {
            std::io::ErrorKind::ConnectionReset
        };
        sys.w.set_err_kinds(kind, kind);
        sys.bring_up(vec![]);
        let mut specs = std_ops();
        specs.push(OpSpec::Publish(PublishSpec::simple(0, "t/z", b"zero")));
        let mut script: Vec<Ev> = vec![];
        for _ in 0..depth {
            if sys.dead {
                break;
            }
            let mut e = vec![];
            e.extend(start_events(&sys, &specs, 3, 1));
            e.extend(broker_acks(&sys, false, true));
            for i in 0..sys.m.ops.len() {
                if let (OpSpec::Subscribe(_), St::Done, Some(sb)) =
                    (&sys.m.ops[i].spec, &sys.m.ops[i].st, sys.m.ops[i].sub)
                {
                    if sys.m.subs[sb].stream.is_none() && sys.m.subs[sb].receiver_alive {
                        e.push(Ev::TakeStream(i));
                    }
                }
            }
            for sb in &sys.m.subs {
                if let Some(id) = sb.sub_id {
                    e.push(Ev::Deliver(inbound(1, false, 77, &[id], "msg")));
                    // remaining length of two bytes
                    // (remaining length of two bytes:) a packet of exactly 512 bytes: one read fills the reader's default chunk to the
                    // last byte and nothing follows
                    let p512 = inbound(0, false, 0, &[id], &"X".repeat(500));
                    let over = p512.encode().len() as i64 - 512;
                    e.push(Ev::Deliver(inbound(0, false, 0, &[id], &"X".repeat((500 - over) as usize))));
                }
            }
            // two packets arriving in one read (so that re-chunked reads end inside the second one)
            let singles: Vec<SPacket> = e
                .iter()
                .filter_map(|x| if let Ev::Deliver(p) = x { Some(p.clone()) } else { None })
                .collect();
            for i in 0..singles.len() {
                for j in 0..singles.len() {
                    let same_target = match (&singles[i], &singles[j]) {
                        (SPacket::Ack { pid: a, .. }, SPacket::Ack { pid: b, .. }) => a == b,
                        _ => i == j,
                    };
                    if i != j && !same_target {
                        e.push(Ev::DeliverBatch(vec![singles[i].clone(), singles[j].clone()]));
                    }
                }
            }
            // the context task is not scheduled for a while: several requests / packets pile up and
            // are served by one poll (whatever the library does between two of them - yield, batch -
            // must be backed by a wakeup)
            if sys.m.ctx == CtxSt::Running {
                if sys.m.ctx_held {
                    e.push(Ev::Release(Tid::Ctx));
                } else {
                    e.push(Ev::Hold(Tid::Ctx));
                }
            }
            if faults && sys.m.ctx == CtxSt::Running {
                e.push(Ev::Eof);
                e.push(Ev::ReadErr);
                e.push(Ev::ReadErrOnce);
            }
            if e.is_empty() {
                break;
            }
            let i = chz.choose(e.len());
            script.push(e[i].clone());
            sys.apply(e[i].clone());
        }
        sys.finish();
        let base = channel_trace(&sys);
        let ntasks_ops = sys.w.ops.len();
        let nstreams = sys.w.streams.len();
        let dead = sys.dead;
        let mut viol = std::mem::take(&mut sys.violations);
        let mut evals = 1u64;
        if !dead {
            let mut tids = vec![Tid::Ctx];
            tids.extend((0..ntasks_ops).map(Tid::Op));
            tids.extend((0..nstreams).map(Tid::Stream));
'outer: for (bytewise, chunk) in [(false, None), (true, None), (false, Some(2usize)), (false, Some(3)), (false, Some(5))] {
                for write in [WriteMode::All, WriteMode::OneByte, WriteMode::PendingEach, WriteMode::HalfThenPending] {
                    if chunk.is_some() && write != WriteMode::All {
                        continue;
                    }
                    let mut variants: Vec<(bool, Option<(usize, Tid)>, Option<(usize, Tid)>)> =
                        vec![(false, None, None), (true, None, None)];
                    for pos in 0..=script.len().saturating_sub(1) {
                        for t in &tids {
                            variants.push((false, Some((pos, *t)), None));
                        }
                    }
                    if pairs && !bytewise && chunk.is_none() && write == WriteMode::All {
                        for p1 in 0..script.len() {
                            for p2 in p1..script.len() {
                                for t1 in &tids {
                                    for t2 in &tids {
                                        variants.push((false, Some((p1, *t1)), Some((p2, *t2))));
                                    }
                                }
                            }
                        }
                    }
                    for (sweep, sp, sp2) in variants {
                        if !bytewise && chunk.is_none() && write == WriteMode::All && !sweep && sp.is_none() {
                            continue; // that is the baseline
                        }
                        let mode = Mode {
                            kind,
                            chunk,
                            bytewise,
                            write,
                            sweep,
                        };
                        let (tr, v, applicable) = run_script(&name, &script, mode, sp, sp2);
                        if !applicable {
                            continue;
                        }
                        evals += 1;
                        if !v.is_empty() {
                            for mut x in v {
                                x.witness = format!("{} [{:?} spurious={:?}]", x.witness, mode, sp.map(|s| s.1));
                                x.replay = json!({
                                    "scenario": name, "params": params, "choices": chz.choices(),
                                    "variant": format!("{:?} spurious={:?} {:?}", mode, sp, sp2),
                                });
                                viol.push(x);
                            }
                            break 'outer;
                        }
                        if tr != base {
                            viol.push(Violation {
                                property: "C16".into(),
                                rule: "C16/trace-differs".into(),
                                witness: format!("{:?} spurious={:?}", mode, sp.map(|s| s.1)),
                                detail: format!(
                                    "script {:?}\n under {:?} spurious={:?}/{:?} gives\n  {}\n but wake-only / whole-packet / accept-all gives\n  {}",
                                    script.iter().map(|e| e.brief()).collect::<Vec<_>>(),
                                    mode, sp, sp2, tr, base
                                ),
                                replay: json!({
                                    "scenario": name, "params": params, "choices": chz.choices(),
                                    "variant": format!("{:?} spurious={:?} {:?}", mode, sp, sp2),
                                }),
                            });
                            break 'outer;
                        }
                    }
                }
            }
        }
        sys.violations = viol;
        sys.report(ex, &["puback", "pubcomp", "suback", "unsuback", "pingresp"]);
        ex.evaluations = evals;
    })
}
