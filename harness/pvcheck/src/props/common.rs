//! Building blocks shared by the E2 scenarios.

use crate::model::*;
use crate::spec::*;
use crate::sys::*;
use crate::world::Tid;
use pvcore::explore::Chz;
use pvcore::refcodec::*;

pub fn kind_of(s: &OpSpec) -> u8 {
    match s {
        OpSpec::Publish(p) => p.qos(),
        OpSpec::Subscribe(_) => 3,
        OpSpec::Unsubscribe(_) => 4,
        OpSpec::Ping => 5,
        OpSpec::Disconnect(_) => 6,
    }
}

pub fn outstanding(m: &Model) -> Vec<usize> {
    (0..m.ops.len())
        .filter(|&i| m.ops[i].alive && m.ops[i].st != St::Done)
        .collect()
}

/// operations whose handshake is still open on the broker side (also cancelled ones)
pub fn open_handshakes(m: &Model) -> Vec<usize> {
    (0..m.ops.len())
        .filter(|&i| {
            matches!(
                m.ops[i].st,
                St::AwaitAck | St::AwaitRec | St::AwaitComp | St::RecOk | St::RelQueued
            )
        })
        .collect()
}

pub fn inbound(qos: u8, dup: bool, pid: u16, subids: &[u32], tag: &str) -> SPacket {
    SPacket::Publish {
        dup,
        qos,
        retain: false,
        topic: "in/t".into(),
        pid: if qos > 0 { Some(pid) } else { None },
        props: subids.iter().map(|s| Prop::var(P_SUBSCRIPTION_ID, *s)).collect(),
        payload: tag.as_bytes().to_vec(),
    }
}

pub fn pubrel_in(pid: u16) -> SPacket {
    SPacket::Ack {
        ty: 6,
        pid,
        reason: 0,
        props: vec![],
        form: 2,
    }
}

/// conformant acknowledgements for every open handshake: (success, optionally one failing reason)
pub fn broker_acks(sys: &Sys, with_fail: bool, tagged: bool) -> Vec<Ev> {
    broker_acks_ext(sys, with_fail, tagged, false)
}

/// `with_nomatch`: also the success reason that is not zero (0x10 No matching subscribers) for
/// PUBACK / PUBREC - a success must not be treated like a failure, nor like "finished"
pub fn broker_acks_ext(sys: &Sys, with_fail: bool, tagged: bool, with_nomatch: bool) -> Vec<Ev> {
    let mut evs = vec![];
    for i in 0..sys.m.ops.len() {
        let tag = if !tagged {
            String::new()
        } else if sys.params["longtag"].as_bool().unwrap_or(false) {
            // (the acknowledgement's properties then take more than 127 bytes: two-byte Property Length)
            format!("r{}{}", i, "L".repeat(130))
        } else {
            format!("r{}", i)
        };
        if let Some(p) = sys.ack_for(i, 0, &tag) {
            evs.push(Ev::Deliver(p));
            if with_fail {
                let fail = match &sys.m.ops[i].st {
                    St::AwaitComp => 0x92,
                    _ => 0x80,
                };
                evs.push(Ev::Deliver(sys.ack_for(i, fail, &tag).unwrap()));
            }
            if with_nomatch
                && matches!(sys.m.ops[i].spec, OpSpec::Publish(_))
                && matches!(sys.m.ops[i].st, St::AwaitAck | St::AwaitRec)
            {
                evs.push(Ev::Deliver(sys.ack_for(i, 0x10, &tag).unwrap()));
            }
        }
    }
    let pingresps = sys
        .m
        .inbox
        .iter()
        .filter(|p| matches!(p, SPacket::Pingresp))
        .count();
    if sys.m.pings.len() > pingresps {
        evs.push(Ev::Deliver(SPacket::Pingresp));
    }
    evs
}

/// scheduling deviations on user-side tasks (and optionally the context task)
pub fn sched_deviations(sys: &Sys, ctx_too: bool, streams_too: bool) -> Vec<Ev> {
    let mut d = vec![];
    for i in 0..sys.m.ops.len() {
        let o = &sys.m.ops[i];
        if !o.alive || o.st == St::Done {
            continue;
        }
        if o.held {
            d.push(Ev::Release(Tid::Op(i)));
        } else {
            d.push(Ev::Hold(Tid::Op(i)));
            if o.st != St::NotPolled {
                d.push(Ev::Spurious(Tid::Op(i)));
            }
        }
    }
    if streams_too {
        for i in 0..sys.m.streams.len() {
            let s = &sys.m.streams[i];
            if !s.alive || s.ended {
                continue;
            }
            if s.held {
                d.push(Ev::Release(Tid::Stream(i)));
            } else {
                d.push(Ev::Hold(Tid::Stream(i)));
                d.push(Ev::Spurious(Tid::Stream(i)));
            }
        }
    }
    if ctx_too && sys.m.ctx == CtxSt::Running {
        if sys.m.ctx_held {
            d.push(Ev::Release(Tid::Ctx));
        } else {
            d.push(Ev::Hold(Tid::Ctx));
            d.push(Ev::Spurious(Tid::Ctx));
        }
    }
    d
}

/// The standard exploration loop: at every step at most one (costed) deviation, then one event.
pub fn drive(
    sys: &mut Sys,
    chz: &Chz,
    depth: usize,
    devs: &dyn Fn(&Sys) -> Vec<Ev>,
    evs: &dyn Fn(&Sys) -> Vec<Ev>,
) {
    for _ in 0..depth {
        if sys.dead {
            break;
        }
        let mut ds = devs(sys);
        if sys.params["wb"].as_bool().unwrap_or(false)
            && sys.m.ctx == CtxSt::Running
            && !sys.write_block_pending()
            && sys.m.inbox.is_empty()
        {
            // persistent back-pressure on the write half (lifted by an event of its own)
            ds.push(Ev::WriteBlock(0));
            ds.push(Ev::WriteBlock(1));
        }
        if !ds.is_empty() {
            let d = chz.deviate(1 + ds.len());
            if d > 0 {
                sys.apply(ds[d - 1].clone());
                if sys.dead {
                    break;
                }
            }
        }
        let mut es = evs(sys);
        if sys.write_block_pending() {
            if sys.m.block_armed {
                // which of {message handed to the stream, acknowledgement written} comes first is the
                // implementation's choice: no inbound packet that must be acknowledged, and no fault,
                // while it is open which write the block will hit
                // (a successful PUBREC may be answered by the context at once, or by the future later)
                let needs_ack = |p: &SPacket| {
                    matches!(p, SPacket::Publish { qos, .. } if *qos > 0)
                        || matches!(p, SPacket::Ack { ty: 6, .. })
                        || matches!(p, SPacket::Ack { ty: 5, reason, .. } if *reason < 0x80)
                };
                es.retain(|e| match e {
                    Ev::Deliver(p) | Ev::DeliverBytewise(p) | Ev::DeliverSplit(p, _) => !needs_ack(p),
                    Ev::DeliverBatch(v) => !v.iter().any(needs_ack),
                    Ev::WriteErr => false,
                    _ => true,
                });
            }
            es.retain(|e| !matches!(e, Ev::WriteErr));
            es.push(Ev::WriteUnblock);
        }
        // With the write half broken, WHEN run() fails relative to the other packets of a batch is the
        // implementation's business (at the first acknowledgement it cannot write, or after it has
        // looked at everything that had arrived): inbound packets then come one at a time, to a
        // context task that is not held back; and the fault is not injected into such a pile-up.
        if sys.m.write_err {
            let piled = sys.m.ctx_held || !sys.m.inbox.is_empty();
            es.retain(|e| match e {
                Ev::DeliverBatch(_) => false,
                Ev::Deliver(_) | Ev::DeliverBytewise(_) | Ev::DeliverSplit(..) | Ev::PartialThenEof(..) => !piled,
                _ => true,
            });
        } else if sys.m.ctx_held || !sys.m.inbox.is_empty() {
            es.retain(|e| !matches!(e, Ev::WriteErr));
        }
        if es.is_empty() {
            break;
        }
        let i = chz.choose(es.len());
        sys.apply(es[i].clone());
    }
    sys.finish();
}

pub fn std_ops() -> Vec<OpSpec> {
    vec![
        OpSpec::Publish(PublishSpec::simple(1, "t/a", b"one")),
        OpSpec::Publish(PublishSpec::simple(2, "t/b", b"two")),
        OpSpec::Subscribe(SubscribeSpec::simple("s/a")),
        OpSpec::Unsubscribe(UnsubscribeSpec::simple("s/a")),
        OpSpec::Ping,
    ]
}

/// start events respecting "at most `max_out` outstanding, at most `max_kind` of a kind"
pub fn start_events(sys: &Sys, specs: &[OpSpec], max_out: usize, max_kind: usize) -> Vec<Ev> {
    let mut evs = vec![];
    let out = outstanding(&sys.m);
    if sys.m.ctx == CtxSt::Gone && !sys.m.master_alive {
        return evs;
    }
    if !sys.m.master_alive {
        return evs;
    }
    if out.len() < max_out {
        for s in specs {
            let same = out
                .iter()
                .filter(|&&i| kind_of(&sys.m.ops[i].spec) == kind_of(s))
                .count();
            if same < max_kind {
                if sys.params["worker"].as_bool().unwrap_or(false) && sys.m.worker_busy.is_none() {
                    // one long-lived handle used for one operation after the other, and clones of it
                    evs.push(Ev::StartW(s.clone()));
                    evs.push(Ev::StartWC(s.clone()));
                } else {
                    evs.push(Ev::Start(s.clone()));
                }
            }
        }
    }
    evs
}

pub fn receive_max(r: u16) -> Vec<Prop> {
    vec![Prop::u16(P_RECEIVE_MAXIMUM, r)]
}
