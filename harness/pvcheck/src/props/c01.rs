//! C01 - every packet written is well-formed MQTT 5 and carries the caller's options.
//!
//! Bounded-exhaustive enumeration of option shapes pushed through the public API over the mock
//! transport; the bytes are decoded by the independent strict decoder and compared with the packet the
//! standard prescribes for those options (model: `WirePat::Request` / `WirePat::Exact`).

use super::common::*;
use super::*;
use crate::model::*;
use crate::spec::*;
use crate::sys::*;
use crate::wire::WriteMode;
use crate::world::CtxCmd;
use pvcore::refcodec::*;

pub fn check(tier: Tier) -> Check {
    let t = tier == Tier::Thorough;
    let parts = vec![
        Part::new("C01/connect-subsets", json!({"full": t}), 0, tier.pick(40, 900)),
        Part::new("C01/connect-values", json!({}), 0, 120),
        Part::new("C01/auth", json!({}), 0, 60),
        Part::new("C01/publish", json!({}), 0, 120),
        Part::new("C01/subscribe", json!({"max_filters": tier.pick(2, 3)}), 0, tier.pick(40, 600)),
        Part::new("C01/unsubscribe", json!({}), 0, 60),
        Part::new("C01/disconnect", json!({}), 0, 60),
        Part::new("C01/values", json!({}), 0, 120),
        Part::new("C01/length-sweep", json!({"big": t}), 0, tier.pick(60, 600)),
        Part::new("C01/fragmentation", json!({}), tier.pick(3, 4), tier.pick(40, 600)),
        Part::new("C01/fragmentation-uniform", json!({}), 0, 60),
        // the second transmission of a publish (session resume, hook H1) carries the caller's values too
        Part::new("C01/resume", json!({"depth": 3, "expiry": 1000, "secs_ago": 10, "rich": true}), 0, 60),
        // longer histories (four publishes in flight, acknowledged out of order): "in submission order"
        Part::new("C01/resume", json!({"depth": tier.pick(5, 6), "expiry": 1000, "secs_ago": 10}), 0, tier.pick(40, 300)),
        // the re-sent packets under every way the transport may take them (a write half that gathers
        // vectored writes: a partial write may end inside a later packet)
        Part::new("C01/resume", json!({"depth": 3, "expiry": 1000, "secs_ago": 10, "rich": true, "wmode": "explore"}), 2, tier.pick(40, 300)),
        Part::new("C01/resume", json!({"depth": 3, "expiry": 1000, "secs_ago": 10, "wmode": "htp"}), 0, tier.pick(40, 300)),
        Part::new("C01/resume", json!({"depth": 3, "expiry": 1000, "secs_ago": 10, "wmode": "one"}), 0, tier.pick(40, 300)),
        Part::new("C01/fragmentation-uniform", json!({"flavour": 3}), 0, 60),
        Part::new("C01/fragmentation-uniform", json!({"flavour": 4}), 0, 60),
        Part::new("C01/fragmentation", json!({"flavour": 4}), 1, tier.pick(40, 600)),
    ];
    Check {
        also_rel: false,
        property: "C01",
        level: "exploration",
        rule: "presence subsets of every optional field of ConnectOpts (quick: all subsets without a will, all will-only subsets against empty/full backgrounds, all subsets of size <=3 and >=n-3; thorough: all 2^14 x (1 + 2^9)), AuthOpts, PublishOpts, SubscribeOpts/SubscriptionOpts (all 36 option bytes per filter, 0..n filters), UnsubscribeOpts, DisconnectOpts (all 29 reasons); boundary values per field (lengths 0,1,127,128,16383,16384,65535, multi-byte UTF-8, integer extremes) against empty and full backgrounds; sweeps making property length and remaining length take every value across the 1/2/3(/4)-byte variable byte integer switches; a five-request session under every write script with <= K deviations (accept 1 byte / half / Pending) and the uniform 1-byte and Pending-first scripts. Every case is encoded by the library, decoded by the independent strict decoder and compared field by field; distinct_nontrivial = distinct cases in which a packet reached the wire; re-sent packets of a resumed session (C01/resume: the C17 history machine to depth 5, publishes with every option, the resume run under every write script with <= 2 deviations over a write half that gathers vectored writes); publish topics absent / empty (alias-only form) / present".into(),
        assumptions: vec![
            "values MQTT 5 can represent; a will is absent or has topic and payload; will-only options only with a will".into(),
            "AuthOpts::reason_string cannot be used through the public API (it returns ()), so AUTH reason strings are not enumerated".into(),
        ],
        parts,
    }
}

fn s(n: usize) -> String {
    // deterministic ASCII string of n bytes
    (0..n).map(|i| (b'a' + (i % 26) as u8) as char).collect()
}
fn utf(n_chars: usize) -> String {
    // multi-byte: 2-, 3- and 4-byte scalars
    // (U+FEFF is an ordinary character in MQTT strings: never a byte order mark to be stripped)
    let pat = ['\u{feff}', '\u{00e9}', '\u{4e2d}', '\u{1f600}'];
    (0..n_chars).map(|i| pat[i % 4]).collect()
}
fn b(n: usize) -> Vec<u8> {
    (0..n).map(|i| (i * 7 + 3) as u8).collect()
}

pub const N_CONNECT_FIELDS: usize = 24;

/// field i of the CONNECT option set; `var` selects a boundary value (0 = canonical small value)
fn set_connect_field(c: &mut ConnectSpec, i: usize, var: usize) {
    let lens = [3usize, 0, 1, 127, 128, 16383, 16384, 65535];
    let l = lens[var.min(lens.len() - 1)];
    let u16s = [10u16, 1, 255, 256, 65535, 0, 10, 10];
    let u32s = [10u32, 1, 255, 65536, u32::MAX, 0, 10, 10];
    // (9 .. 13: content that a well-meaning normalisation would touch - surrounding blanks, tabs, line
    // ends, DEL; all of it legal in an MQTT string and to be carried exactly as given)
    let mk_s = |l: usize| match var {
        8 => utf(5),
        9 => " lead".to_string(),
        10 => "trail ".to_string(),
        11 => "line\r\n".to_string(),
        12 => "\n".to_string(),
        13 => "\ttab\u{7f}\r".to_string(),
        _ => s(l),
    };
    match i {
        0 => c.client_id = Some(mk_s(l)),
        1 => c.keep_alive = Some(u16s[var.min(7)]),
        2 => c.session_expiry = Some(u32s[var.min(7)]),
        3 => c.receive_maximum = Some(u16s[var.min(4)]),
        4 => c.maximum_packet_size = Some(u32s[var.min(4)]),
        5 => c.topic_alias_maximum = Some(u16s[var.min(7)]),
        6 => c.request_response_information = Some(var % 2 == 0),
        7 => c.request_problem_information = Some(var % 2 == 0),
        8 => c.auth_method = Some(mk_s(l)),
        9 => c.auth_data = Some(b(l)),
        10 => {
            c.user_props = vec![(mk_s(l.min(300)), mk_s(l))];
            if var % 2 == 0 {
                c.user_props.push(("k".into(), "v2".into()));
            }
        }
        11 => c.clean_start = Some(var % 2 == 0),
        12 => c.username = Some(mk_s(l)),
        13 => c.password = Some(b(l)),
        14 => {
            c.will_topic = Some(if var == 0 { "w/t".into() } else { mk_s(l.max(1)) });
            c.will_payload = Some(b(if var == 0 { 2 } else { l }));
        }
        15 => c.will_qos = Some([1u8, 2, 0, 1, 2, 0, 1, 2, 1][var.min(8)]),
        16 => c.will_retain = Some(var % 2 == 0),
        17 => c.will_delay = Some(u32s[var.min(7)]),
        18 => c.will_pfi = Some(var % 2 == 0),
        19 => c.will_expiry = Some(u32s[var.min(7)]),
        20 => c.will_content_type = Some(mk_s(l)),
        21 => c.will_response_topic = Some(mk_s(l)),
        22 => c.will_correlation = Some(b(l)),
        23 => {
            c.will_user_props = vec![(mk_s(l.min(300)), mk_s(l))];
            if var % 2 == 1 {
                c.will_user_props.push(("wk".into(), "".into()));
            }
        }
        _ => unreachable!(),
    }
}

pub fn connect_from_mask(mask: u32, special: Option<(usize, usize)>) -> ConnectSpec {
    let mut c = ConnectSpec::default();
    for i in 0..N_CONNECT_FIELDS {
        if mask & (1 << i) != 0 {
            let var = match special {
                Some((f, v)) if f == i => v,
                _ => 0,
            };
            set_connect_field(&mut c, i, var);
        }
    }
    c
}

fn valid_connect_mask(m: u32) -> bool {
    // will-only options only together with a will
    let will = m & (1 << 14) != 0;
    let will_only = m & (0x1ff << 15) != 0;
    will || !will_only
}

fn connect_masks(full: bool) -> Vec<u32> {
    let mut v = vec![];
    if full {
        for m in 0..(1u32 << 24) {
            if valid_connect_mask(m) {
                v.push(m);
            }
        }
        return v;
    }
    let mut seen = std::collections::BTreeSet::new();
    // all subsets of the 14 non-will fields, will absent
    for m in 0..(1u32 << 14) {
        seen.insert(m);
    }
    // all subsets of the will-only fields with a will, against empty and full non-will backgrounds
    for w in 0..(1u32 << 9) {
        seen.insert((1 << 14) | (w << 15));
        seen.insert((1 << 14) | (w << 15) | 0x3fff);
    }
    // all subsets of size <= 2 and >= n-2
    let all = (1u32 << 24) - 1;
    seen.insert(all);
    for i in 0..24 {
        seen.insert(1 << i);
        seen.insert(all & !(1 << i));
        for j in 0..i {
            seen.insert((1 << i) | (1 << j));
            seen.insert(all & !(1 << i) & !(1 << j));
        }
    }
    // all subsets of size 3 and n-3 (a will-only option needs the will bit, so pairs of options
    // around a will are triples)
    for i in 0..24 {
        for j in 0..i {
            for k in 0..j {
                seen.insert((1 << i) | (1 << j) | (1 << k));
                seen.insert(all & !((1 << i) | (1 << j) | (1 << k)));
            }
        }
    }
    for m in seen {
        if valid_connect_mask(m) {
            v.push(m);
        }
    }
    v
}

fn run_connect(sys: &mut Sys, spec: ConnectSpec) {
    sys.events.push(format!("Connect({:?})", brief_connect(&spec)));
    sys.classes.push("Connect".into());
    sys.m.connect(spec.clone());
    sys.w.cmd(CtxCmd::Connect(spec));
    sys.sync();
}

fn brief_connect(c: &ConnectSpec) -> String {
    let mut m = 0u32;
    let flags = [
        c.client_id.is_some(),
        c.keep_alive.is_some(),
        c.session_expiry.is_some(),
        c.receive_maximum.is_some(),
        c.maximum_packet_size.is_some(),
        c.topic_alias_maximum.is_some(),
        c.request_response_information.is_some(),
        c.request_problem_information.is_some(),
        c.auth_method.is_some(),
        c.auth_data.is_some(),
        !c.user_props.is_empty(),
        c.clean_start.is_some(),
        c.username.is_some(),
        c.password.is_some(),
        c.will_topic.is_some(),
        c.will_qos.is_some(),
        c.will_retain.is_some(),
        c.will_delay.is_some(),
        c.will_pfi.is_some(),
        c.will_expiry.is_some(),
        c.will_content_type.is_some(),
        c.will_response_topic.is_some(),
        c.will_correlation.is_some(),
        !c.will_user_props.is_empty(),
    ];
    for (i, f) in flags.iter().enumerate() {
        if *f {
            m |= 1 << i;
        }
    }
    format!("fields={:#08x}", m)
}

const NT: &[&str] = &[
    "wire-request",
    "qos0-written",
    "qos12-written",
    "subscribe-written",
    "user-disconnect",
];

fn report_c01(mut sys: Sys, ex: &mut Exec, wrote: bool) {
    if wrote {
        sys.m.hits.push("wire-request");
    }
    sys.report(ex, NT);
}

pub fn scenario(name: &str, params: &Value) -> Scenario {
    if name == "C01/resume" {
        return super::c17::scenario_for("C01", name, params);
    }
    let params = params.clone();
    let name = name.to_string();
    match name.as_str() {
        "C01/connect-subsets" => {
            let masks = connect_masks(params["full"].as_bool().unwrap_or(false));
            Box::new(move |chz, ex| {
                let m = masks[chz.choose(masks.len())];
                let mut sys = Sys::new("C01", &name, chz);
                sys.params = params.clone();
                let spec = connect_from_mask(m, None);
                let wrote = spec.expected().is_some();
                run_connect(&mut sys, spec);
                report_c01(sys, ex, wrote);
            })
        }
        "C01/connect-values" => Box::new(move |chz, ex| {
            let field = chz.choose(N_CONNECT_FIELDS);
            let var = 1 + chz.choose(13);
            let full = chz.choose(2) == 1;
            let mut mask = if full { (1u32 << 24) - 1 } else { 1 << field };
            if field >= 15 {
                mask |= 1 << 14;
            }
            if field == 9 {
                mask |= 1 << 8;
            }
            let mut sys = Sys::new("C01", &name, chz);
            sys.params = params.clone();
            let spec = connect_from_mask(mask, Some((field, var)));
            let wrote = spec.expected().is_some();
            run_connect(&mut sys, spec);
            report_c01(sys, ex, wrote);
        }),
        "C01/auth" => Box::new(move |chz, ex| {
            let reason = [None, Some(0u8), Some(0x18), Some(0x19)][chz.choose(4)];
            let lens = [3usize, 0, 1, 127, 128, 16383, 16384, 65535];
            let method = match chz.choose(3) {
                0 => None,
                1 => Some("m".to_string()),
                _ => Some(s(lens[chz.choose(lens.len())])),
            };
            let data = match chz.choose(3) {
                0 => None,
                1 => Some(vec![1, 2]),
                _ => Some(b(lens[chz.choose(lens.len())])),
            };
            let nup = chz.choose(3);
            let spec = AuthSpec {
                reason,
                method,
                data,
                user_props: (0..nup).map(|i| ("k".to_string(), format!("v{}", i))).collect(),
            };
            let mut sys = Sys::new("C01", &name, chz);
            sys.params = params.clone();
            // reach the authorize phase: connect with a method, AUTH challenge
            sys.connect_with(
                ConnectSpec {
                    auth_method: Some("m".into()),
                    auth_data: Some(vec![0]),
                    ..Default::default()
                },
                SPacket::Auth {
                    reason: 0x18,
                    props: vec![Prop::str(P_AUTH_METHOD, "m"), Prop::bin(P_AUTH_DATA, &[9])],
                    form: 2,
                },
            );
            let wrote = spec.expected().is_some();
            if !sys.dead {
                sys.events.push(format!("Authorize({:?})", spec.reason));
                sys.classes.push("Authorize".into());
                sys.m.authorize(&spec);
                sys.w.cmd(CtxCmd::Authorize(spec));
                sys.sync();
            }
            report_c01(sys, ex, wrote);
        }),
        "C01/publish" => Box::new(move |chz, ex| {
            let qos = chz.choose(3) as u8;
            let qos_set = qos != 0 || chz.choose(2) == 1;
            let retain = [None, Some(false), Some(true)][chz.choose(3)];
            // topic: absent (refused) / the empty string (legal: together with a Topic Alias it is the
            // alias-only form; the client is not the judge of whether the alias exists) / a name
            let topic = chz.choose(3);
            let mask = chz.choose(64);
            let nup = chz.choose(3);
            let payload = match chz.choose(3) {
                0 => None,
                1 => Some(vec![]),
                _ => Some(b"payload".to_vec()),
            };
            let spec = PublishSpec {
                qos: if qos_set { Some(qos) } else { None },
                retain,
                topic: match topic {
                    0 => None,
                    1 => Some(String::new()),
                    _ => Some("a/b".into()),
                },
                payload,
                pfi: if mask & 1 != 0 { Some(true) } else { None },
                topic_alias: if mask & 2 != 0 { Some(7) } else { None },
                expiry: if mask & 4 != 0 { Some(60) } else { None },
                correlation: if mask & 8 != 0 { Some(vec![1, 2, 3]) } else { None },
                response_topic: if mask & 16 != 0 { Some("r/t".into()) } else { None },
                content_type: if mask & 32 != 0 { Some("ct".into()) } else { None },
                user_props: (0..nup).map(|i| ("k".to_string(), format!("v{}", i))).collect(),
            };
            let mut sys = Sys::new("C01", &name, chz);
            sys.params = params.clone();
            sys.bring_up(vec![]);
            sys.apply(Ev::Start(OpSpec::Publish(spec)));
            sys.finish();
            report_c01(sys, ex, false);
        }),
        "C01/subscribe" => {
            let maxf = params["max_filters"].as_u64().unwrap_or(2) as usize;
            Box::new(move |chz, ex| {
                let nf = chz.choose(maxf + 1);
                let mut filters = vec![];
                for i in 0..nf {
                    // the default-constructed options once, then all 36 explicit combinations
                    let k = chz.choose(37);
                    // the filter's text: plain, wildcards, $-topics, a shared subscription and names that
                    // merely begin like one (what the options mean to a server is the server's business;
                    // only No Local on a real shared subscription is a protocol error and is left out)
                    let shapes = ["f/{}", "$share/group/f/{}", "$shared/news/{}/#", "$sharepoint/+/{}", "$SYS/{}/#", "+/{}/+", "#", "a//{}/", "/"];
                    // (with three filters per SUBSCRIBE the shapes vary in the first one only)
                    let shape = if maxf > 2 && i > 0 { shapes[0] } else { shapes[chz.choose(shapes.len())] };
                    let name = shape.replace("{}", &i.to_string());
                    if name.starts_with("$share/") && k != 36 && (k / 3) % 2 == 1 {
                        continue;
                    }
                    let f = if k == 36 {
                        FilterSpec::plain(&name)
                    } else {
                        FilterSpec {
                            filter: name.clone(),
                            qos: Some((k % 3) as u8),
                            no_local: Some((k / 3) % 2 == 1),
                            retain_as_published: Some((k / 6) % 2 == 1),
                            retain_handling: Some((k / 12) as u8),
                        }
                    };
                    filters.push(f);
                }
                let nup = chz.choose(3);
                let spec = SubscribeSpec {
                    filters,
                    user_props: (0..nup).map(|i| ("k".to_string(), format!("v{}", i))).collect(),
                };
                let mut sys = Sys::new("C01", &name, chz);
                sys.params = params.clone();
                sys.bring_up(vec![]);
                sys.apply(Ev::Start(OpSpec::Subscribe(spec)));
                sys.finish();
                report_c01(sys, ex, false);
            })
        }
        "C01/unsubscribe" => Box::new(move |chz, ex| {
            let nf = chz.choose(4);
            let nup = chz.choose(3);
            let spec = UnsubscribeSpec {
                filters: (0..nf).map(|i| format!("f/{}", i)).collect(),
                user_props: (0..nup).map(|i| ("k".to_string(), format!("v{}", i))).collect(),
            };
            let mut sys = Sys::new("C01", &name, chz);
            sys.params = params.clone();
            sys.bring_up(vec![]);
            sys.apply(Ev::Start(OpSpec::Unsubscribe(spec)));
            if chz.choose(2) == 1 {
                sys.apply(Ev::Start(OpSpec::Ping));
            }
            sys.finish();
            report_c01(sys, ex, false);
        }),
        "C01/disconnect" => Box::new(move |chz, ex| {
            let reason = match chz.choose(DISCONNECT_REASONS.len() + 1) {
                0 => None,
                k => Some(DISCONNECT_REASONS[k - 1]),
            };
            let expiry = [None, Some(0u32), Some(1), Some(u32::MAX)][chz.choose(4)];
            let rs = [None, Some("bye".to_string())][chz.choose(2)].clone();
            let nup = chz.choose(3);
            let spec = DisconnectSpec {
                reason,
                session_expiry: expiry,
                reason_string: rs,
                user_props: (0..nup).map(|i| ("k".to_string(), format!("v{}", i))).collect(),
            };
            let mut sys = Sys::new("C01", &name, chz);
            sys.params = params.clone();
            sys.bring_up(vec![]);
            sys.apply(Ev::Start(OpSpec::Disconnect(spec)));
            sys.finish();
            report_c01(sys, ex, false);
        }),
        "C01/values" => Box::new(move |chz, ex| {
            // boundary values of the request options, one field at a time, empty / full background
            let lens = [0usize, 1, 127, 128, 16383, 16384, 65535];
            let kind = chz.choose(4);
            let full = chz.choose(2) == 1;
            let l = lens[chz.choose(lens.len())];
            let content = chz.choose(3);
            let multibyte = content == 1;
            // (content 2: blanks, tabs, line ends, DEL around a short text - one shape per length slot)
            let tricky = [" ", "\n", "a\r\n", " a ", "\tb\t", "x\u{7f}", "\r"];
            let li = lens.iter().position(|x| *x == l).unwrap_or(0);
            let st = |l: usize| {
                if content == 2 {
                    tricky[li % tricky.len()].to_string()
                } else if multibyte {
                    utf((l / 3).max(1).min(20000))
                } else {
                    s(l)
                }
            };
            let spec = match kind {
                0 => {
                    let field = chz.choose(8);
                    let mut p = if full {
                        PublishSpec {
                            qos: Some(2),
                            retain: Some(true),
                            topic: Some("t".into()),
                            payload: Some(b"p".to_vec()),
                            pfi: Some(false),
                            topic_alias: Some(1),
                            expiry: Some(1),
                            correlation: Some(vec![0]),
                            response_topic: Some("r".into()),
                            content_type: Some("c".into()),
                            user_props: vec![("a".into(), "b".into())],
                        }
                    } else {
                        PublishSpec::simple(1, "t", b"")
                    };
                    match field {
                        0 => p.topic = Some(st(l.max(1))),
                        1 => p.payload = Some(b(l * 3)),
                        2 => p.correlation = Some(b(l)),
                        3 => p.response_topic = Some(st(l)),
                        4 => p.content_type = Some(st(l)),
                        5 => p.user_props = vec![(st(l), st(l / 2))],
                        6 => p.topic_alias = Some([1u16, 255, 256, 65535, 2, 3, 4][chz.choose(4)]),
                        _ => p.expiry = Some([0u32, 1, 65536, u32::MAX][chz.choose(4)]),
                    }
                    OpSpec::Publish(p)
                }
                1 => OpSpec::Subscribe(SubscribeSpec {
                    filters: vec![
                        FilterSpec {
                            filter: st(l.max(1)),
                            qos: Some(1),
                            no_local: Some(true),
                            retain_as_published: Some(full),
                            retain_handling: Some(2),
                        },
                        FilterSpec::plain("second"),
                    ],
                    user_props: if full { vec![(st(l), st(l))] } else { vec![] },
                }),
                2 => OpSpec::Unsubscribe(UnsubscribeSpec {
                    filters: vec![st(l.max(1)), "x".into()],
                    user_props: if full { vec![(st(l), st(l))] } else { vec![] },
                }),
                _ => OpSpec::Disconnect(DisconnectSpec {
                    reason: Some(0x04),
                    session_expiry: if full { Some(7) } else { None },
                    reason_string: Some(st(l)),
                    user_props: if full { vec![(st(l), "".into())] } else { vec![] },
                }),
            };
            let mut sys = Sys::new("C01", &name, chz);
            sys.params = params.clone();
            sys.bring_up(vec![]);
            sys.apply(Ev::Start(spec));
            sys.finish();
            report_c01(sys, ex, false);
        }),
        "C01/length-sweep" => {
            let big = params["big"].as_bool().unwrap_or(false);
            Box::new(move |chz, ex| {
                // choose a target window and a delta so that a length field crosses a VBI boundary
                let windows: &[usize] = &[120, 16376, 2097144];
                let base = windows[chz.choose(windows.len())];
                // (quick: around the 3-/4-byte boundary only 2097150..=2097154)
                let delta = if base > 100_000 && !big { 6 + chz.choose(5) } else { chz.choose(17) };
                let target = base + delta; // desired value of the length field
                let kind = chz.choose(7);
                let mut sys = Sys::new("C01", &name, chz);
                sys.params = params.clone();
                // filler user properties of <= 65535-byte values; each costs 1 + 2 + klen + 2 + vlen
                let fill = |total: usize| -> Vec<(String, String)> {
                    // property bytes wanted = total; build from chunks
                    let mut props = vec![];
                    let mut left = total;
                    while left > 0 {
                        let overhead = 5 + 1; // id + two length prefixes + key "k"
                        if left < overhead {
                            return vec![]; // cannot hit exactly; caller skips
                        }
                        let v = (left - overhead).min(60000);
                        if left - overhead - v > 0 && left - overhead - v < overhead {
                            // leave room for one more property
                            let v2 = v - overhead;
                            props.push(("k".to_string(), s(v2)));
                            left -= overhead + v2;
                        } else {
                            props.push(("k".to_string(), s(v)));
                            left -= overhead + v;
                        }
                    }
                    props
                };
                match kind {
                    0 => {
                        // PUBLISH remaining length via payload: rem = 2+1 + 2(pid) + 1(props) + payload
                        let fixed = 2 + 1 + 2 + 1;
                        if target >= fixed {
                            sys.bring_up(vec![]);
                            sys.apply(Ev::Start(OpSpec::Publish(PublishSpec::simple(
                                1,
                                "t",
                                &vec![7u8; target - fixed],
                            ))));
                        }
                    }
                    1 => {
                        // PUBLISH property length via user properties
                        let up = fill(target);
                        if !up.is_empty() {
                            sys.bring_up(vec![]);
                            let mut p = PublishSpec::simple(0, "t", b"x");
                            p.user_props = up;
                            sys.apply(Ev::Start(OpSpec::Publish(p)));
                        }
                    }
                    2 => {
                        // CONNECT property length
                        let up = fill(target);
                        if !up.is_empty() {
                            let spec = ConnectSpec {
                                user_props: up,
                                ..Default::default()
                            };
                            run_connect(&mut sys, spec);
                        }
                    }
                    3 => {
                        // CONNECT will property length
                        let up = fill(target);
                        if !up.is_empty() {
                            let spec = ConnectSpec {
                                will_topic: Some("w".into()),
                                will_payload: Some(vec![]),
                                will_user_props: up,
                                ..Default::default()
                            };
                            run_connect(&mut sys, spec);
                        }
                    }
                    4 => {
                        // SUBSCRIBE property length (sub id 1 takes 2 bytes)
                        if target > 2 {
                            let up = fill(target - 2);
                            if !up.is_empty() {
                                sys.bring_up(vec![]);
                                sys.apply(Ev::Start(OpSpec::Subscribe(SubscribeSpec {
                                    filters: vec![FilterSpec::plain("f")],
                                    user_props: up,
                                })));
                            }
                        }
                    }
                    5 => {
                        // UNSUBSCRIBE / DISCONNECT property length
                        let up = fill(target);
                        if !up.is_empty() {
                            sys.bring_up(vec![]);
                            sys.apply(Ev::Start(OpSpec::Unsubscribe(UnsubscribeSpec {
                                filters: vec!["f".into()],
                                user_props: up.clone(),
                            })));
                            sys.apply(Ev::Start(OpSpec::Disconnect(DisconnectSpec {
                                reason: Some(0x80),
                                session_expiry: None,
                                reason_string: None,
                                user_props: up,
                            })));
                        }
                    }
                    _ => {
                        // CONNECT remaining length via password: rem = 10 + 1(props) + 2(client id) + 2 + pw
                        let fixed = 10 + 1 + 2 + 2;
                        if target >= fixed && target - fixed <= 65535 {
                            let spec = ConnectSpec {
                                password: Some(vec![1u8; target - fixed]),
                                ..Default::default()
                            };
                            run_connect(&mut sys, spec);
                        }
                    }
                }
                sys.finish();
                let wrote = sys.transitions > 0 || !sys.events.is_empty();
                report_c01(sys, ex, wrote);
            })
        }
        "C01/fragmentation" | "C01/fragmentation-uniform" => {
            let uniform = name == "C01/fragmentation-uniform";
            Box::new(move |chz, ex| {
                let mut sys = Sys::new("C01", &name, chz);
                sys.params = params.clone();
                sys.m.check_client_acks = true;
                let mode = if uniform {
                    [WriteMode::OneByte, WriteMode::PendingEach, WriteMode::HalfThenPending][chz.choose(3)]
                } else {
                    WriteMode::Explore
                };
                // (params.flavour 3 / 4: the session runs on the second connection of a Context whose
                // first one broke inside an inbound packet / while an acknowledgement was being written:
                // the new wire starts with the new CONNECT and carries nothing left over)
                let fl = params["flavour"].as_u64().unwrap_or(0);
                if fl == 0 {
                    sys.set_write_mode(mode);
                }
                sys.bring_up_fl(vec![], fl);
                if fl != 0 {
                    sys.set_write_mode(mode);
                }
                let mut p = PublishSpec::simple(1, "frag/topic", b"fragmented payload");
                p.user_props = vec![("k".into(), "v".into())];
                sys.apply(Ev::Start(OpSpec::Publish(p)));
                sys.apply(Ev::Start(OpSpec::Subscribe(SubscribeSpec::simple("frag/#"))));
                sys.apply(Ev::Start(OpSpec::Ping));
                // (a second caller pings while the first PINGREQ is unanswered: one PINGREQ each)
                sys.apply(Ev::Start(OpSpec::Ping));
                // an acknowledgement the client has to write in between
                sys.apply(Ev::Deliver(inbound(2, false, 5, &[], "in")));
                sys.apply(Ev::Start(OpSpec::Disconnect(DisconnectSpec {
                    reason: Some(0x04),
                    reason_string: Some("bye".into()),
                    ..Default::default()
                })));
                sys.finish();
                report_c01(sys, ex, true);
            })
        }
        _ => {
            eprintln!("MACHINERY: unknown scenario {}", name);
            std::process::exit(2);
        }
    }
}
