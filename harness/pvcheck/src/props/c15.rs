//! C15 - a cancelled operation never disturbs the connection or other callers.

use super::common::*;
use super::*;
use crate::model::*;
use crate::spec::*;
use crate::sys::*;

pub fn check(tier: Tier) -> Check {
    let mut parts = vec![];
    for k in 0..=2u32 {
        let d = match (tier, k) {
            (Tier::Quick, 0) => 6,
            (Tier::Quick, 1) => 4,
            (Tier::Quick, _) => 3,
            (Tier::Thorough, 0) => 7,
            (Tier::Thorough, 1) => 6,
            (Tier::Thorough, _) => 5,
        };
        for r in [1u64, 2] {
            parts.push(Part::new("C15/cancel", json!({"depth": d, "r": r}), k, tier.pick(30, 500)));
        }
    }
    parts.push(Part::new("C15/cancel", json!({"depth": tier.pick(5, 6), "r": 1, "flavour": 1, "own_rm": 20}), 0, tier.pick(30, 500)));
    // identifier flavour: the counters start next to a boundary of their encodings (DESIGN 4)
    parts.push(Part::new("C15/cancel", json!({"depth": tier.pick(5, 6), "r": 2, "ids": [65534, 127]}), 0, tier.pick(30, 500)));
    parts.push(Part::new("C15/cancel", json!({"depth": tier.pick(4, 5), "r": 1, "ids": [255, 16383]}), 1, tier.pick(30, 500)));
    // persistent back-pressure on the write half: a future dropped while its packet is half written
    parts.push(Part::new("C15/cancel", json!({"depth": tier.pick(4, 5), "r": 2, "wb": true}), 1, tier.pick(30, 500)));
    parts.push(Part::new("C15/cancel", json!({"depth": tier.pick(3, 4), "r": 1, "wb": true}), 2, tier.pick(30, 500)));
    // a Maximum Packet Size in force: abandoned requests that would have been refused for their size
    parts.push(Part::new("C15/cancel", json!({"depth": tier.pick(4, 5), "r": 2, "m": 12}), 1, tier.pick(30, 500)));
    // requests made before connect() (and possibly abandoned before it)
    parts.push(Part::new("C15/cancel", json!({"depth": tier.pick(4, 5), "r": 1, "early": 3}), 0, tier.pick(30, 500)));
    // operations issued on one long-lived handle and on clones of it (a cancelled operation takes the handle with it)
    parts.push(Part::new("C15/cancel", json!({"depth": tier.pick(4, 5), "r": 2, "worker": true}), 0, tier.pick(30, 500)));
    // three established subscriptions: dropping a stream / a response must not disturb the others
    parts.push(Part::new("C15/streams", json!({"depth": tier.pick(5, 6)}), tier.pick(0, 1), tier.pick(30, 400)));
    // identifier spaces made to collide: the next PACKET identifier equals the SUBSCRIPTION identifier
    // of an established subscription (a late SUBACK / cancelled subscribe must not touch that one)
    parts.push(Part::new("C15/streams", json!({"depth": tier.pick(4, 6), "collide": true}), 0, tier.pick(30, 400)));
    // a publish abandoned while its request is still queued (context task held back): it is sent, its
    // late acknowledgement frees the slot
    parts.push(Part::new("C15/abandoned-queued", json!({}), 0, 60));
    // more abandoned operations than there are packet identifiers
    parts.push(Part::new("C15/many-cancelled", json!({}), 0, 120));
    // a rolling population of subscriptions: streams dropped, subscribes abandoned before their SUBACK,
    // new subscriptions made - the survivors and the newcomers get every message
    parts.push(Part::new("C15/rolling", json!({"rounds": tier.pick(10, 30)}), 0, 120));
    parts.push(Part::new("C15/rolling", json!({"rounds": tier.pick(10, 30), "abandon": true}), 0, 120));
    // value flavour (DESIGN 4): the same exploration with requests / inbound messages of unusual content
    parts.push(Part::new("C15/cancel", json!({"depth": tier.pick(4, 5), "r": 1, "vals": 1}), 1, tier.pick(30, 500)));
    parts.push(Part::new("C15/streams", json!({"depth": tier.pick(4, 5), "vals": 1}), 0, tier.pick(30, 400)));
    Check {
        also_rel: false,
        property: "C15",
        level: "model_checking",
        rule: "histories of operations (publish QoS 0/1/2, subscribe, unsubscribe, ping, with Receive Maximum 1 or 2 so that a leaked slot shows) in which any pending operation future is dropped at any point - before its first poll, awaiting its acknowledgement, between the QoS 2 phases - and streams / subscribe responses are dropped (also with three established subscriptions and messages matching several of them), followed by the late acknowledgements and further operations; run() must stay pending, survivors get exactly their own results, one more QoS>0 publish is accepted after the late acknowledgement; (C15/abandoned-queued) a publish abandoned while its request is still queued, its late acknowledgement, then R + 1 probes; (C15/rolling) a rolling population of subscriptions with dropped streams and subscribes abandoned before their SUBACK; QoS 2 re-deliveries in C15/streams; value flavour; non-trivial = a late acknowledgement of a cancelled operation was delivered".into(),
        assumptions: vec!["conformant broker".into()],
        parts,
    }
}

pub fn streams(prop: &'static str, name: String, params: Value) -> Scenario {
    let depth = params["depth"].as_u64().unwrap_or(4) as usize;
    Box::new(move |chz, ex| {
        let mut sys = Sys::new(prop, &name, chz);
        sys.params = params.clone();
        sys.m.check_client_acks = false;
        sys.bring_up(vec![]);
        for i in 0..3 {
            sys.apply(Ev::Start(OpSpec::Subscribe(SubscribeSpec::simple(&format!("s/{}", i)))));
            if sys.dead {
                return sys.report(ex, &[]);
            }
            let ack = sys.ack_for(i, 0, "").unwrap();
            sys.apply(Ev::Deliver(ack));
            // the third one keeps its SubscribeRsp (stream() not called yet)
            if i < 2 {
                sys.apply(Ev::TakeStream(i));
            }
        }
        if sys.dead {
            return sys.report(ex, &[]);
        }
        let ids: Vec<u32> = sys.m.subs.iter().map(|x| x.sub_id.unwrap()).collect();
        let collide = params["collide"].as_bool().unwrap_or(false);
        if collide {
            // the next packet identifiers are the subscription identifiers of streams 1 and 2
            sys.w.handle().verif_set_ids(ids[1] as u16, 100);
            sys.events.push(format!("PresetCounters(packet_id={}, sub_id=100)", ids[1]));
        }
        let devs = |s: &Sys| sched_deviations(s, false, true);
        let evs = |s: &Sys| {
            let mut e = vec![];
            for i in 0..s.m.streams.len() {
                if s.m.streams[i].alive {
                    e.push(Ev::DropStream(i));
                }
            }
            if s.m.subs[2].stream.is_none() && s.m.subs[2].receiver_alive {
                e.push(Ev::DropRsp(2));
                e.push(Ev::TakeStream(2));
            }
            if collide {
                // further subscribe / unsubscribe calls of another caller, which may be abandoned
                if s.m.ops.len() < 5 {
                    e.push(Ev::Start(OpSpec::Subscribe(SubscribeSpec::simple("s/new"))));
                    e.push(Ev::Start(OpSpec::Unsubscribe(UnsubscribeSpec::simple("s/0"))));
                }
                for i in 3..s.m.ops.len() {
                    let o = &s.m.ops[i];
                    if o.alive && o.st != St::Done && !matches!(o.spec, OpSpec::Publish(_)) {
                        e.push(Ev::Cancel(i));
                    }
                }
            }
            let t = s.transitions;
            for id in &ids {
                e.push(Ev::Deliver(inbound(0, false, 0, &[*id], &format!("m{}", t))));
            }
            // one message matching all / two of the subscriptions
            e.push(Ev::Deliver(inbound(1, false, 31, &ids, &format!("a{}", t))));
            // a QoS 2 message for all of them, and the broker repeating it before its PUBREL
            e.push(Ev::Deliver(inbound(2, false, 33, &ids, "q2-all")));
            e.push(Ev::Deliver(inbound(2, true, 33, &ids, "q2-all")));
            e.push(Ev::Deliver(pubrel_in(33)));
            e.push(Ev::Deliver(inbound(0, false, 0, &[ids[0], ids[1]], &format!("p{}", t))));
            e.push(Ev::Deliver(inbound(0, false, 0, &[ids[1], ids[2]], &format!("q{}", t))));
            // another caller keeps working
            if s.m.ops.len() < 5 {
                e.push(Ev::Start(OpSpec::Publish(PublishSpec::simple(1, "t/x", b"other"))));
            }
            e.extend(broker_acks(s, false, false));
            e
        };
        drive(&mut sys, chz, depth, &devs, &evs);
        sys.m.hits.push("late-ack-absorbed");
        sys.report(ex, &["late-ack-absorbed"]);
    })
}

/// A publish abandoned between its first poll (the request is queued) and the moment run() takes the
/// request: the PUBLISH goes out all the same, its late acknowledgement is absorbed and frees the slot -
/// afterwards exactly R further publishes are accepted and the next one is refused.
pub fn abandoned_queued(prop: &'static str, name: String, params: Value) -> Scenario {
    Box::new(move |chz, ex| {
        let r = 1 + chz.choose(3) as u16;
        let (q, reason) = [(1u8, 0u8), (1, 0x10), (1, 0x80), (2, 0x80), (2, 0x97)][chz.choose(5)];
        let others_first = chz.choose(2) == 1;
        let mut sys = Sys::new(prop, &name, chz);
        sys.params = params.clone();
        sys.m.check_client_acks = false;
        sys.bring_up(receive_max(r));
        if others_first {
            // another caller's publish is written (and stays unacknowledged for a while)
            sys.apply(Ev::Start(OpSpec::Publish(PublishSpec::simple(1, "t/o", b"other"))));
        }
        sys.apply(Ev::Hold(crate::world::Tid::Ctx));
        sys.apply(Ev::Start(OpSpec::Publish(PublishSpec::simple(q, "t/a", b"abandoned"))));
        let op = sys.m.ops.len() - 1;
        sys.apply(Ev::Cancel(op));
        sys.apply(Ev::Release(crate::world::Tid::Ctx));
        if sys.dead {
            return sys.report(ex, &[]);
        }
        if let Some(a) = sys.ack_for(op, reason, "late") {
            sys.apply(Ev::Deliver(a));
        }
        if others_first && !sys.dead {
            if let Some(a) = sys.ack_for(0, 0, "") {
                sys.apply(Ev::Deliver(a));
            }
        }
        // the quota is whole again: R publishes go out, the next is refused, a QoS 0 publish is not
        for i in 0..=r {
            sys.apply(Ev::Start(OpSpec::Publish(PublishSpec::simple(1 + (i % 2) as u8, "t/p", b"probe"))));
        }
        sys.apply(Ev::Start(OpSpec::Publish(PublishSpec::simple(0, "t/z", b"free"))));
        sys.finish();
        sys.report(ex, &["quota-refusal"]);
    })
}

/// 65 600 operations in a row, each abandoned after its request went out and acknowledged late; then
/// ordinary operations: whatever an implementation keeps per abandoned operation, it must not run out.
fn many_cancelled(name: String, params: Value) -> Scenario {
    Box::new(move |chz, ex| {
        let kind = chz.choose(3);
        let mut sys = Sys::new("C15", &name, chz);
        sys.params = params.clone();
        sys.m.check_client_acks = false;
        sys.bring_up(vec![]);
        for i in 0..65_600usize {
            if sys.dead {
                break;
            }
            let spec = match kind {
                0 => OpSpec::Publish(PublishSpec::simple(1, "t", b"a")),
                1 => OpSpec::Unsubscribe(UnsubscribeSpec::simple("s")),
                _ => if i % 2 == 0 { OpSpec::Publish(PublishSpec::simple(1, "t", b"a")) } else { OpSpec::Subscribe(SubscribeSpec::simple("s")) },
            };
            sys.apply(Ev::Start(spec));
            let op = sys.m.ops.len() - 1;
            sys.apply(Ev::Cancel(op));
            if let Some(a) = sys.ack_for(op, 0, "") {
                sys.apply(Ev::Deliver(a));
            }
        }
        for spec in [
            OpSpec::Publish(PublishSpec::simple(1, "t/after", b"x")),
            OpSpec::Subscribe(SubscribeSpec::simple("s/after")),
            OpSpec::Unsubscribe(UnsubscribeSpec::simple("s/after")),
            OpSpec::Publish(PublishSpec::simple(2, "t/after", b"y")),
        ] {
            sys.apply(Ev::Start(spec));
            let op = sys.m.ops.len().saturating_sub(1);
            let mut guard = 0;
            while let Some(a) = sys.ack_for(op, 0, "") {
                sys.apply(Ev::Deliver(a));
                guard += 1;
                if sys.dead || guard > 3 {
                    break;
                }
            }
        }
        sys.finish();
        sys.events = vec![format!("65 600 abandoned operations (kind {}) acknowledged late, then four ordinary ones", kind)];
        sys.report(ex, &["puback", "suback", "unsuback", "pubcomp"]);
    })
}

pub fn scenario(name: &str, params: &Value) -> Scenario {
    if name == "C15/many-cancelled" {
        return many_cancelled(name.to_string(), params.clone());
    }
    if name == "C15/abandoned-queued" {
        return abandoned_queued("C15", name.to_string(), params.clone());
    }
    if name == "C15/streams" {
        return streams("C15", name.to_string(), params.clone());
    }
    if name == "C15/rolling" {
        return super::c07::rolling("C15", name.to_string(), params.clone());
    }
    let depth = params["depth"].as_u64().unwrap_or(4) as usize;
    let r = params["r"].as_u64().unwrap_or(1) as u16;
    let params = params.clone();
    let name = name.to_string();
    Box::new(move |chz, ex| {
        let mut sys = Sys::new("C15", &name, chz);
        sys.params = params.clone();
        sys.m.check_client_acks = false;
        let mut cprops = receive_max(r);
        if let Some(m) = params["m"].as_u64() {
            cprops.push(pvcore::refcodec::Prop::u32(pvcore::refcodec::P_MAXIMUM_PACKET_SIZE, m as u32));
        }
        sys.bring_up_fl(cprops, params["flavour"].as_u64().unwrap_or(0));
        let mut specs = std_ops();
        specs.push(OpSpec::Publish(PublishSpec::simple(0, "t/z", b"zero")));
        let devs = |s: &Sys| {
            let mut d = sched_deviations(s, true, false);
            if outstanding(&s.m).len() < 3 {
                for q in [0u8, 1, 2] {
                    d.push(Ev::StartHeld(OpSpec::Publish(PublishSpec::simple(q, "t/h", b"held"))));
                }
                d.push(Ev::StartHeld(OpSpec::Subscribe(SubscribeSpec::simple("s/h"))));
            }
            d
        };
        let evs = |s: &Sys| {
            let mut e = vec![];
            e.extend(start_events(s, &specs, 3, 2));
            // acknowledgements also for cancelled operations (late acknowledgements)
            e.extend(broker_acks_ext(s, true, false, true));
            for i in 0..s.m.ops.len() {
                let o = &s.m.ops[i];
                if o.alive && o.st != St::Done {
                    e.push(Ev::Cancel(i));
                }
                if let (OpSpec::Subscribe(_), St::Done, Some(sb)) = (&o.spec, &o.st, o.sub) {
                    if s.m.subs[sb].stream.is_none() && s.m.subs[sb].receiver_alive {
                        e.push(Ev::TakeStream(i));
                        e.push(Ev::DropRsp(i));
                    }
                }
            }
            for i in 0..s.m.streams.len() {
                if s.m.streams[i].alive {
                    e.push(Ev::DropStream(i));
                }
            }
            if s.m.ctx_held || s.write_block_pending() {
                // While the context task is held (or stuck in a blocked write), keep clear of the recorded finding K-C15-1 (a QoS 2
                // publish abandoned before its PUBREC): its witness would be the later Release.
                let q2_awaiting = |i: usize| {
                    matches!(&s.m.ops[i].spec, OpSpec::Publish(p) if p.qos() == 2)
                        && matches!(s.m.ops[i].st, St::AwaitRec | St::Queued | St::NotPolled)
                };
                e.retain(|x| match x {
                    Ev::Cancel(i) => !q2_awaiting(*i),
                    Ev::Deliver(pvcore::refcodec::SPacket::Ack { ty: 5, pid, .. }) => !s
                        .m
                        .ops
                        .iter()
                        .any(|o| o.pid == Some(*pid) && !o.alive),
                    _ => true,
                });
            }
            for sb in &s.m.subs {
                if let Some(id) = sb.sub_id {
                    e.push(Ev::Deliver(inbound(1, false, 40, &[id], &format!("m{}", s.transitions))));
                }
            }
            // one message matching every subscription (also those whose stream was dropped)
            let all: Vec<u32> = s.m.subs.iter().filter_map(|x| x.sub_id).collect();
            if all.len() >= 2 {
                e.push(Ev::Deliver(inbound(0, false, 0, &all, &format!("a{}", s.transitions))));
            }
            e
        };
        drive(&mut sys, chz, depth, &devs, &evs);
        let late = sys
            .m
            .ops
            .iter()
            .any(|o| !o.alive && matches!(o.st, St::Completing(_)));
        if late {
            sys.m.hits.push("late-ack-absorbed");
        }
        sys.report(ex, &["late-ack-absorbed", "pubrec-ok-abandoned"]);
    })
}
