//! C06 - outbound QoS 1/2 publishes follow the MQTT handshake and report its outcome.

use super::common::*;
use super::*;
use crate::model::*;
use crate::spec::*;
use crate::sys::*;
use crate::wire::WriteMode;
use pvcore::refcodec::SPacket;

const PUBACK_REASONS: &[u8] = &[0x00, 0x10, 0x80, 0x83, 0x87, 0x90, 0x91, 0x97, 0x99];
const PUBCOMP_REASONS: &[u8] = &[0x00, 0x92];

pub fn check(tier: Tier) -> Check {
    let mut parts = vec![];
    // (A) one publish, every legal reason code, write fragmentation and delayed polls as deviations
    parts.push(Part::new("C06/reasons", json!({"depth": 4}), tier.pick(2, 3), tier.pick(30, 300)));
    // (B) two publishes + a ping interleaved, success / one failing reason
    for k in 0..=2u32 {
        let d = match (tier, k) {
            (Tier::Quick, 0) => 7,
            (Tier::Quick, 1) => 5,
            (Tier::Quick, _) => 5,
            (Tier::Thorough, 0) => 8,
            (Tier::Thorough, 1) => 7,
            (Tier::Thorough, _) => 6,
        };
        parts.push(Part::new("C06/interleave", json!({"depth": d}), k, tier.pick(30, 400)));
        if k < 2 {
            // the same with the send quota exhausted at some point (Receive Maximum 1 and 2)
            for r in [1u64, 2] {
                parts.push(Part::new("C06/interleave", json!({"depth": d - 1, "r": r}), k, tier.pick(30, 400)));
            }
        }
    }
    parts.push(Part::new("C06/interleave", json!({"depth": tier.pick(5, 6), "r": 1, "flavour": 1}), 1, tier.pick(30, 400)));
    // persistent back-pressure on the write half (WriteBlock / WriteUnblock events)
    parts.push(Part::new("C06/interleave", json!({"depth": tier.pick(4, 5), "r": 2, "wb": true}), 1, tier.pick(30, 400)));
    parts.push(Part::new("C06/interleave", json!({"depth": tier.pick(3, 4), "wb": true}), 2, tier.pick(30, 400)));
    // two publishes in flight under one identifier value (the counter rewound by the hook, as after a
    // lap): until an acknowledgement arrives both stay pending, both packets are written
    parts.push(Part::new("C06/same-id", json!({}), 0, 60));
    // a sliding window of publishes (and other requests) over 60 rounds: each handshake reports its own outcome
    parts.push(Part::new("C06/sliding", json!({}), 0, 120));
    // publishes issued one after the other on ONE handle object (and on clones of it), some refused
    parts.push(Part::new("C06/interleave", json!({"depth": tier.pick(5, 6), "r": 1, "worker": true}), 0, tier.pick(30, 400)));
    parts.push(Part::new("C06/interleave", json!({"depth": tier.pick(4, 5), "r": 2, "m": 12, "worker": true}), 1, tier.pick(30, 400)));
    // identifier flavour: the counters start next to a boundary of their encodings (DESIGN 4)
    parts.push(Part::new("C06/interleave", json!({"depth": tier.pick(5, 6), "r": 2, "ids": [65534, 1]}), 1, tier.pick(30, 400)));
    parts.push(Part::new("C06/interleave", json!({"depth": tier.pick(5, 6), "ids": [255, 1]}), 0, tier.pick(30, 400)));
    // value flavour (DESIGN 4): the same exploration with requests / inbound messages of unusual content
    parts.push(Part::new("C06/interleave", json!({"depth": tier.pick(5, 6), "r": 2, "vals": 1}), 1, tier.pick(30, 400)));
    Check {
        also_rel: false,
        property: "C06",
        level: "model_checking",
        rule: "all event sequences over publishes (QoS 0/1/2 x retain x 2 topics/payloads, and one carrying every optional PUBLISH property with a 300-byte payload), every legal PUBACK/PUBREC/PUBCOMP reason code, a ping interleaved, delayed polls of the publish future (also between the QoS 2 phases) and partial/pending writes as deviations; publishes issued one after the other on one long-lived handle object and on clones of it (Receive Maximum 1 / 2, Maximum Packet Size 12); value flavour (retain, every property, alias-only and $share topics); non-trivial = a QoS>0 handshake was completed or failed".into(),
        assumptions: vec!["conformant broker".into()],
        parts,
    }
}

fn pub_specs() -> Vec<OpSpec> {
    let mut v = vec![];
    for q in 0..3u8 {
        for (ret, t, p) in [(false, "t/a", &b"alpha"[..]), (true, "t/bb", &b""[..])] {
            let mut s = PublishSpec::simple(q, t, p);
            s.retain = Some(ret);
            v.push(OpSpec::Publish(s));
        }
    }
    v
}

pub fn scenario(name: &str, params: &Value) -> Scenario {
    if name == "C06/same-id" {
        return super::c10::same_id("C06", name.to_string(), params.clone());
    }
    if name == "C06/sliding" {
        return super::c05::sliding("C06", name.to_string(), params.clone());
    }
    let depth = params["depth"].as_u64().unwrap_or(4) as usize;
    let r = params["r"].as_u64().unwrap_or(0) as u16;
    let params = params.clone();
    let name = name.to_string();
    let all_reasons = name == "C06/reasons";
    Box::new(move |chz, ex| {
        let mut sys = Sys::new("C06", &name, chz);
        sys.params = params.clone();
        let mut cprops = if r == 0 { vec![] } else { receive_max(r) };
        if let Some(m) = params["m"].as_u64() {
            cprops.push(pvcore::refcodec::Prop::u32(pvcore::refcodec::P_MAXIMUM_PACKET_SIZE, m as u32));
        }
        sys.bring_up_fl(cprops, params["flavour"].as_u64().unwrap_or(0));
        if all_reasons {
            sys.set_write_mode(WriteMode::Explore);
        }
        let mut specs = pub_specs();
        if all_reasons {
            // a publish carrying every optional property and a payload that needs a two-byte
            // remaining length: "the requested ... topic/payload" includes everything the caller set
            for q in 0..3u8 {
                let mut s = PublishSpec::simple(q, "t/rich", &[0x5a; 300]);
                s.retain = Some(q == 1);
                s.pfi = Some(true);
                s.topic_alias = Some(7);
                s.expiry = Some(3600);
                s.correlation = Some(vec![0xc0, 0xff, 0xee]);
                s.response_topic = Some("re/ply".into());
                s.content_type = Some("text/plain".into());
                s.user_props = vec![("k".into(), "v".into()), ("k".into(), "w".into())];
                specs.push(OpSpec::Publish(s));
            }
        }
        let devs = |s: &Sys| sched_deviations(s, false, false);
        let evs = |s: &Sys| {
            let mut e = vec![];
            if all_reasons {
                if s.m.ops.is_empty() {
                    e.extend(specs.iter().cloned().map(Ev::Start));
                }
                for i in 0..s.m.ops.len() {
                    let rs: &[u8] = match s.m.ops[i].st {
                        St::AwaitAck | St::AwaitRec => PUBACK_REASONS,
                        St::AwaitComp => PUBCOMP_REASONS,
                        _ => &[],
                    };
                    // short form; long form with a reason string and user properties; long form whose
                    // properties take more than 127 bytes (two-byte Property Length)
                    let long = "L".repeat(140);
                    for r in rs {
                        for tag in ["", "why", long.as_str()] {
                            if tag.len() > 100 && !matches!(*r, 0x00 | 0x80 | 0x92) {
                                continue;
                            }
                            if let Some(p) = s.ack_for(i, *r, tag) {
                                e.push(Ev::Deliver(p));
                            }
                        }
                    }
                    // reason-only short form (remaining length 3)
                    if let Some(SPacket::Ack { ty, pid, .. }) = s.ack_for(i, 0, "") {
                        e.push(Ev::Deliver(SPacket::Ack {
                            ty,
                            pid,
                            reason: if ty == 7 { 0x92 } else { 0x10 },
                            props: vec![],
                            form: 3,
                        }));
                    }
                }
            } else {
                let pubs = outstanding(&s.m)
                    .iter()
                    .filter(|&&i| matches!(s.m.ops[i].spec, OpSpec::Publish(_)))
                    .count();
                if pubs < 2 {
                    for sp in specs.iter().cloned() {
                        if s.params["worker"].as_bool().unwrap_or(false) && s.m.worker_busy.is_none() {
                            // one long-lived handle object used for one publish after the other (what a
                            // handle keeps between calls - a scratch buffer, say - must not leak into
                            // the next packet), and clones taken from it
                            e.push(Ev::StartW(sp.clone()));
                            e.push(Ev::StartWC(sp));
                        } else {
                            e.push(Ev::Start(sp));
                        }
                    }
                }
                if s.m.pings.is_empty() && s.m.ops.len() < 4 {
                    e.push(Ev::Start(OpSpec::Ping));
                }
                e.extend(broker_acks_ext(s, true, false, r != 0));
            }
            e
        };
        drive(&mut sys, chz, depth, &devs, &evs);
        sys.report(ex, &["puback", "pubcomp", "pubrec-fail", "pubrec-ok", "pubrel-sent"]);
    })
}
