//! C03 - framing is independent of how the byte stream is chunked; no lost wakeups.
//!
//! For a fixed packet sequence every composition of its byte stream into reads is enumerated
//! (exhaustively for short streams; structured families for long ones), in two reader modes
//! (next chunk already available / Pending between chunks, waker must be honoured). The reference
//! model is fed each packet at the moment its last byte has been handed to the transport, so the
//! observations must equal the reference framing at every quiescent point.

use super::common::*;
use super::*;
use crate::spec::*;
use crate::sys::*;
use pvcore::refcodec::*;

pub fn check(tier: Tier) -> Check {
    let parts = vec![
        Part::new("C03/short", json!({"max_len": tier.pick(14, 19)}), 0, tier.pick(50, 900)),
        Part::new("C03/short", json!({"max_len": tier.pick(9, 12), "flavour": 3}), 0, tier.pick(50, 300)),
        Part::new("C03/short", json!({"max_len": tier.pick(9, 12), "flavour": 4}), 0, tier.pick(50, 300)),
        Part::new("C03/eof", json!({"max_len": tier.pick(9, 12)}), 0, tier.pick(50, 600)),
        Part::new("C03/long", json!({"big": tier == Tier::Thorough, "narrow": tier == Tier::Quick}), 0, tier.pick(50, 600)),
        Part::new("C03/long", json!({"huge": true, "pairs": tier == Tier::Thorough}), 0, tier.pick(50, 300)),
        // the stream object lives across connect() -> run(): bytes behind the CONNACK in the same read
        Part::new("C03/handover", json!({}), 0, 60),
        // size-scale relations: a big packet whose total length, or whose part still outstanding at a
        // read boundary, is a power of two (2^9 .. 2^21) give or take one - and 512 bytes beyond one;
        // then silence / end-of-stream (whatever the reader does in steps of a round size)
        Part::new("C03/pow2", json!({"max_k": tier.pick(21, 23)}), 0, 300),
        // long bursts: many small packets without a pause (a yield after N items must come with a wakeup)
        Part::new("C03/burst", json!({"max": tier.pick(8193, 65537)}), 0, 120),
        // what the reader does with its buffer after a big packet
        Part::new("C03/after-big", json!({"sizes": if tier == Tier::Quick { vec![9000, 70_000, 1_100_000] } else { vec![9000, 70_000, 300_000, 1_100_000, 2_100_000] }}), 0, 120),
        Part::new("C03/aligned", json!({"shifts": tier.pick(48, 80), "wide": tier.pick(1100, 2200), "all_cuts": tier == Tier::Thorough}), 0, tier.pick(50, 900)),
    ];
    Check {
        also_rel: true,
        property: "C03",
        level: "model_checking",
        rule: "(S1) every 2- and 3-packet sequence over {PINGRESP, short PUBACK, SUBACK, inbound PUBLISH QoS 0/1 with a small payload} up to the stated total length x all 2^(n-1) compositions of the byte stream into reads x {all chunks immediately available, Pending between chunks}; (S1') the same for shorter streams on the second connection of a Context whose first connection ended three bytes into a packet / with a failed acknowledgement write and a further packet already read; (S1e) every 1-2-packet stream up to a small total length cut short after every prefix by end-of-stream / read error, under every composition of the prefix; (S2) PUBLISH packets of 126..131, 510..516, 1022..1028, 1534..1540, 2046..2052, 4096, 16383..16390 bytes (quick: 127..129, 511..514, 1023..1026, 1536, 2047..2050, 16384..16386; thorough also 70000; a 2097160-byte packet (four-byte remaining length) with every single cut (thorough: every pair of cuts) near the interesting offsets) preceded by 0-2 small packets x {every single cut, every pair of cuts within +-3 of packet boundaries and multiples of 512, every uniform chunk size 1..=40 and 511..513, 1023..1025} x both reader modes; (S3) a stream of seven packets (a lead-in PUBLISH whose size takes every value in a window of 48 (thorough: 80) consecutive sizes - and, for the deliveries in one read or in chunks of >= 255 bytes, in a window of 1100 (thorough: 2200) -, then PUBLISH packets of about 700, 200, 118, 20, 30 and 620 bytes), so that every later packet boundary - and with it the start of a fixed header and of a multi-byte remaining length - falls on every alignment against the 512-byte read step and the 1024-byte allocation, delivered in one read, under every single cut near packet boundaries and multiples of 256 (thorough: every single cut) and in uniform chunks of 1, 2, 3, 5, 7, 64, 255, 256, 257, 511, 512, 513, 1019, 1024 bytes, both reader modes; (S5) bursts of 33, 65, 129, 257, 1025 (thorough: up to 16385) small packets (QoS 0 to a stream, QoS 1 to a stream, mixed without a stream) in one read, in 512-byte reads and in one read per packet, all available at once, optionally followed by end-of-stream; (S6) after a big packet (9 000 / 70 000 / 1 100 000 bytes, thorough also 300 000 / 2 100 000; retained by a stream or not) delivered in fragments of 1000 / 4096 bytes / whole, the read that completes it also carries 0 / 1 / 2 / 3 / all bytes of the next packet (one- and two-byte remaining length), then nothing / a spurious poll of the context task / a request of another caller, then the rest and one more packet; (S4) hand-over from connect() to run(): the read that carries the CONNACK also carries the first k bytes (every k near both ends, every 97th in between) of six following packet sequences, the rest arrives once run() is served; run in the overflow-checked and the wrapping-arithmetic build; oracle: reference framing at every quiescent point, no unread visible bytes at quiescence, no end-of-stream before the transport's, no zero-length read; big packets whose length, or the part outstanding at a cut, is 2^k +- 1 for k = 9..21 (thorough 23), also 512 / 1024 bytes beyond (C03/pow2); bursts of up to 8193 (thorough 65537) packets; bytes behind the CONNACK also on a resumed session and with the client's own limits announced; non-trivial = a packet was split across reads".into(),
        assumptions: vec!["packets are well-formed (malformed input is C04)".into()],
        parts,
    }
}

/// the context with one operation of each relevant kind outstanding and one live stream
fn setup(sys: &mut Sys) -> Option<u32> {
    // (params.flavour 3 / 4: on the second connection of a Context whose first one ended with input
    // left over in the reader - the new connection starts with a clean reader)
    let fl = sys.params["flavour"].as_u64().unwrap_or(0);
    sys.bring_up_fl(vec![], fl);
    sys.apply(Ev::Start(OpSpec::Subscribe(SubscribeSpec::simple("s/live"))));
    if sys.dead {
        return None;
    }
    let ack = sys.ack_for(0, 0, "").unwrap();
    sys.apply(Ev::Deliver(ack));
    sys.apply(Ev::TakeStream(0));
    sys.apply(Ev::Start(OpSpec::Ping));
    sys.apply(Ev::Start(OpSpec::Publish(PublishSpec::simple(1, "t", b"x"))));
    sys.apply(Ev::Start(OpSpec::Subscribe(SubscribeSpec::simple("s/2"))));
    if sys.dead {
        return None;
    }
    sys.m.subs[0].sub_id
}

/// deliver `bytes` cut at `cuts` (sorted offsets, exclusive of 0 and len); `packets` with their end
/// offsets are handed to the model as soon as their last byte has been delivered
fn deliver_cut(sys: &mut Sys, bytes: &[u8], cuts: &[usize], packets: &[(usize, SPacket)], pending_between: bool) {
    let mut bounds = vec![0usize];
    bounds.extend_from_slice(cuts);
    bounds.push(bytes.len());
    let mut next_pkt = 0;
    sys.events.push(format!(
        "Deliver {} bytes cut at {:?} ({})",
        bytes.len(),
        if cuts.len() > 12 { &cuts[..12] } else { cuts },
        if pending_between { "Pending between reads" } else { "all reads available" }
    ));
    sys.classes.push(format!("DeliverCut(pending_between={})", pending_between));
    for w in bounds.windows(2) {
        if sys.dead {
            return;
        }
        let (a, b) = (w[0], w[1]);
        if a == b {
            continue;
        }
        sys.w.deliver(bytes[a..b].to_vec());
        if pending_between {
            while next_pkt < packets.len() && packets[next_pkt].0 <= b {
                sys.m.deliver(packets[next_pkt].1.clone());
                next_pkt += 1;
            }
            sys.transitions += 1;
            sys.sync();
        }
    }
    if !pending_between {
        for p in packets {
            sys.m.deliver(p.1.clone());
        }
        sys.transitions += 1;
        sys.sync();
    }
}

fn small_packets(sub_id: u32, op_pub: usize, op_sub: usize, sys: &Sys) -> Vec<SPacket> {
    let mut v = vec![SPacket::Pingresp];
    if let Some(p) = sys.ack_for(op_pub, 0, "") {
        v.push(p);
    }
    if let Some(p) = sys.ack_for(op_sub, 0, "") {
        v.push(p);
    }
    v.push(inbound(0, false, 0, &[sub_id], "p"));
    v.push(inbound(1, false, 9, &[sub_id], "qq"));
    v
}

/// N small packets back to back - in one read, in 512-byte reads, or in reads of one packet each that
/// are all available at once -, optionally followed by end-of-stream: every one is handled, in order.
pub fn burst(prop: &'static str, name: String, params: Value) -> Scenario {
    let max = params["max"].as_u64().unwrap_or(1025) as usize;
    Box::new(move |chz, ex| {
        let ns: Vec<usize> = [33usize, 65, 129, 257, 1025, 4097, 8193, 16385, 65537].into_iter().filter(|n| *n <= max).collect();
        let n = ns[chz.choose(ns.len())];
        let kind = chz.choose(3);
        let chunking = chz.choose(3);
        let eof = chz.choose(2) == 1;
        let mut sys = Sys::new(prop, &name, chz);
        sys.params = params.clone();
        let Some(sid) = setup(&mut sys) else {
            return sys.report(ex, &[]);
        };
        let mut bytes = vec![];
        let mut packets = vec![];
        for i in 0..n {
            let p = match kind {
                0 => inbound(0, false, 0, &[sid], &format!("b{}", i)),
                1 => inbound(1, false, (i % 60000) as u16 + 1, &[sid], &format!("b{}", i)),
                _ => inbound(if i % 2 == 0 { 0 } else { 1 }, false, (i % 60000) as u16 + 1, &[], "x"),
            };
            bytes.extend(p.encode());
            packets.push((bytes.len(), p));
        }
        let cuts: Vec<usize> = match chunking {
            0 => vec![],
            1 => (1..bytes.len()).step_by(512).skip(1).collect(),
            _ => packets[..packets.len() - 1].iter().map(|(e, _)| *e).collect(),
        };
        deliver_cut(&mut sys, &bytes, &cuts, &packets, false);
        if eof && !sys.dead {
            sys.apply(Ev::Eof);
        }
        sys.finish();
        sys.events = vec![format!("burst of {} packets (kind {}), chunking {}, eof {}", n, kind, chunking, eof)];
        sys.m.hits.push("packet-split");
        sys.report(ex, &["packet-split"]);
    })
}

/// A big packet (9 000 / 70 000 / 1 100 000 bytes; retained by a live stream, or unretained: no / an
/// unknown subscription identifier) arrives in fragments; the read that completes it also carries
/// the first k bytes of the next packet (k = 0: nothing, 1: the type byte, 2-3: into a multi-byte
/// remaining length, or all of it); then - after a pause, optionally with a spurious poll of the
/// context task or a request of another caller in between - the rest. Whatever the reader does with
/// its buffer after a big packet (shrink, swap, keep), nothing already received may be lost.
pub fn after_big(prop: &'static str, name: String, params: Value) -> Scenario {
    let sizes: Vec<usize> = params["sizes"]
        .as_array()
        .map(|a| a.iter().map(|x| x.as_u64().unwrap() as usize).collect())
        .unwrap_or_else(|| vec![9000, 70_000]);
    Box::new(move |chz, ex| {
        let size = sizes[chz.choose(sizes.len())];
        let retained = chz.choose(3); // 0: live stream, 1: no subscription identifier, 2: unknown one
        let frag = [1000usize, 4096, usize::MAX][chz.choose(3)];
        let k_choice = chz.choose(5);
        let between = chz.choose(3); // 0: nothing, 1: spurious poll of the context task, 2: a ping request
        let next_two_byte_len = chz.choose(2) == 1;
        let mut sys = Sys::new(prop, &name, chz);
        sys.params = params.clone();
        let Some(sid) = setup(&mut sys) else {
            return sys.report(ex, &[]);
        };
        let subids: Vec<u32> = match retained {
            0 => vec![sid],
            1 => vec![],
            _ => vec![4242],
        };
        let big = SPacket::Publish {
            dup: false,
            qos: 0,
            retain: false,
            topic: "in/big".into(),
            pid: None,
            props: subids.iter().map(|s| Prop::var(P_SUBSCRIPTION_ID, *s)).collect(),
            payload: (0..size).map(|i| (i * 7 % 253) as u8).collect(),
        };
        let next = if next_two_byte_len {
            inbound(1, false, 11, &[sid], &"n".repeat(300))
        } else {
            inbound(1, false, 11, &[sid], "next")
        };
        let last = inbound(0, false, 0, &[sid], "last");
        let b1 = big.encode();
        let b2 = next.encode();
        let b3 = last.encode();
        let k = match k_choice {
            0 => 0,
            1 => 1,
            2 => 2,
            3 => 3.min(b2.len()),
            _ => b2.len(),
        };
        // the big packet in fragments; its last fragment is short (fewer than 512 bytes missing) and
        // carries k bytes of the next packet
        let mut pos = 0;
        let tail = 300.min(b1.len() - 1);
        sys.events.push(format!(
            "big PUBLISH of {} bytes ({}), fragments of {}, the last read also carries {} byte(s) of the next packet; in between: {}",
            b1.len(),
            ["retained by a stream", "no subscription identifier", "unknown subscription identifier"][retained],
            if frag == usize::MAX { "all".to_string() } else { frag.to_string() },
            k,
            ["nothing", "a spurious poll of the context task", "a ping request"][between]
        ));
        sys.classes.push("AfterBig".into());
        while pos < b1.len() - tail {
            let end = (pos.saturating_add(frag)).min(b1.len() - tail);
            sys.w.deliver(b1[pos..end].to_vec());
            sys.transitions += 1;
            sys.sync();
            if sys.dead {
                return sys.report(ex, &[]);
            }
            pos = end;
        }
        let mut lastread = b1[pos..].to_vec();
        lastread.extend_from_slice(&b2[..k]);
        sys.w.deliver(lastread);
        sys.m.deliver(big.clone());
        if k == b2.len() {
            sys.m.deliver(next.clone());
        }
        sys.transitions += 1;
        sys.sync();
        if sys.dead {
            return sys.report(ex, &[]);
        }
        match between {
            1 => sys.apply(Ev::Spurious(crate::world::Tid::Ctx)),
            2 => sys.apply(Ev::Start(OpSpec::Ping)),
            _ => {}
        }
        if k < b2.len() && !sys.dead {
            sys.w.deliver(b2[k..].to_vec());
            sys.m.deliver(next.clone());
            sys.transitions += 1;
            sys.sync();
        }
        if !sys.dead {
            sys.w.deliver(b3);
            sys.m.deliver(last);
            sys.transitions += 1;
            sys.sync();
        }
        sys.finish();
        sys.m.hits.push("packet-split");
        sys.report(ex, &["packet-split"]);
    })
}

/// The read that brings the CONNACK (or the AUTH challenge) also brings the first k bytes of what
/// follows; the rest arrives once run() is being served. Nothing may be lost at the hand-over.
fn handover(name: String, params: Value) -> Scenario {
    Box::new(move |chz, ex| {
        let mut sys = Sys::new("C03", &name, chz);
        sys.params = params.clone();
        let tails: Vec<Vec<SPacket>> = vec![
            vec![inbound(1, false, 7, &[], "early")],
            vec![inbound(2, false, 300, &[], "early2"), pubrel_in(300)],
            vec![SPacket::Pingresp, inbound(1, false, 8, &[], "x")],
            vec![inbound(0, false, 0, &[], "q0"), SPacket::Disconnect { reason: 0x8b, props: vec![], form: 1 }],
            vec![SPacket::Disconnect { reason: 0, props: vec![], form: 0 }],
            vec![SPacket::Publish { dup: false, qos: 1, retain: false, topic: "in/t".into(), pid: Some(9), props: vec![], payload: vec![0x5a; 700] }],
        ];
        let tail = tails[chz.choose(tails.len())].clone();
        let connack = SPacket::Connack { session_present: false, reason: 0, props: vec![Prop::u16(P_RECEIVE_MAXIMUM, 5)] };
        let mut bytes = connack.encode();
        let c = bytes.len();
        let mut ends = vec![];
        for p in &tail {
            bytes.extend(p.encode());
            ends.push(bytes.len());
        }
        // k bytes of the tail ride along with the CONNACK
        let rest = bytes.len() - c;
        let ks: Vec<usize> = (0..=rest).filter(|k| *k <= 12 || *k + 4 >= rest || *k % 97 == 0).collect();
        let k = ks[chz.choose(ks.len())];
        // (the client may announce limits of its own - large ones: whatever it prepares for them when
        // the CONNACK is accepted must not disturb what has been read behind the CONNACK)
        let spec = if chz.choose(2) == 1 {
            ConnectSpec { maximum_packet_size: Some(100_000), receive_maximum: Some(100), ..Default::default() }
        } else {
            ConnectSpec::default()
        };
        // (resumed: the same on the second connection of a Context that recorded a disconnection and
        // resumes a live session - hook H1 -: what connect() read ahead belongs to the new connection)
        let resumed = chz.choose(2) == 1;
        let spec = if resumed { ConnectSpec { client_id: Some("handover".into()), session_expiry: Some(1000), ..spec } } else { spec };
        if resumed {
            sys.auto_exit = false;
            sys.connect_with(spec.clone(), SPacket::Connack { session_present: false, reason: 0, props: vec![] });
            if !sys.dead {
                sys.start_run();
            }
            sys.apply(Ev::Eof);
            if sys.dead {
                return sys.report(ex, &[]);
            }
            sys.events.push("MarkDisconnected(10s ago); Reconnect".into());
            sys.classes.push("Reconnect".into());
            sys.w.cmd(crate::world::CtxCmd::MarkDisconnected(10));
            sys.w.new_wire();
            sys.m.new_wire();
        }
        sys.events.push(format!("Connect; CONNACK + {} of {} following bytes in the same read", k, rest));
        sys.classes.push("Connect".into());
        sys.m.connect(spec.clone());
        sys.w.cmd(crate::world::CtxCmd::Connect(spec));
        sys.sync();
        if sys.dead {
            return sys.report(ex, &[]);
        }
        sys.m.deliver(connack);
        sys.w.deliver(bytes[..c + k].to_vec());
        sys.sync();
        if sys.dead {
            return sys.report(ex, &[]);
        }
        // whole packets that have already arrived wait inside the stream object until run() is served
        let mut fed = 0;
        while fed < tail.len() && ends[fed] <= c + k {
            sys.m.deliver(tail[fed].clone());
            fed += 1;
        }
        if resumed {
            sys.events.push("Run(resume)".into());
            sys.classes.push("Resume(expired=false)".into());
            sys.m.resume(false);
            sys.m.ctx_woken = true;
            sys.w.cmd(crate::world::CtxCmd::Run);
            sys.sync();
        } else {
            sys.start_run();
        }
        if !sys.dead && c + k < bytes.len() {
            sys.events.push("Deliver(the remaining bytes)".into());
            sys.classes.push("DeliverRest".into());
            sys.w.deliver(bytes[c + k..].to_vec());
            while fed < tail.len() {
                sys.m.deliver(tail[fed].clone());
                fed += 1;
            }
            sys.sync();
        }
        sys.apply(Ev::Start(OpSpec::Ping));
        sys.finish();
        sys.m.hits.push("packet-split");
        sys.report(ex, &["packet-split"]);
    })
}

/// One inbound QoS 1 PUBLISH of `total` bytes, optionally a small packet in front, delivered whole or
/// cut so that exactly 2^k + d bytes of it are outstanding at the cut; nothing behind it (silence), or
/// end-of-stream. The PUBACK and the stream item tell when the client saw it.
fn pow2(name: String, params: Value) -> Scenario {
    Box::new(move |chz, ex| {
        let max_k = params["max_k"].as_u64().unwrap_or(21) as usize;
        let ks: Vec<usize> = (9..=max_k).collect();
        let k = ks[chz.choose(ks.len())];
        let d = [-1i64, 0, 1][chz.choose(3)];
        // how the size relates to 2^k: the packet itself is 2^k + d / 512 + 2^k + d / 1024 + 2^k + d
        // bytes long and arrives in one read; or it is 1.5 * 2^k + 3 long and cut with 2^k + d outstanding
        let shape = chz.choose(4);
        let eof = chz.choose(2) == 1;
        let lead = chz.choose(2) == 1;
        let p2 = 1usize << k;
        let total = match shape {
            0 => (p2 as i64 + d) as usize,
            1 => (512 + p2 as i64 + d) as usize,
            2 => (1024 + p2 as i64 + d) as usize,
            _ => p2 + p2 / 2 + 3,
        };
        let mut sys = Sys::new("C03", &name, chz);
        sys.params = params.clone();
        let Some(sub_id) = setup(&mut sys) else { return sys.report(ex, &[]); };
        // a PUBLISH of exactly `total` bytes
        let mut plen = total.saturating_sub(20);
        let mut pkt;
        let mut tries = 0;
        loop {
            pkt = SPacket::Publish {
                dup: false,
                qos: 1,
                retain: false,
                topic: "in/t".into(),
                pid: Some(77),
                props: vec![Prop::var(P_SUBSCRIPTION_ID, sub_id)],
                payload: vec![0x6b; plen],
            };
            let l = pkt.encode().len();
            tries += 1;
            if l == total || tries > 6 {
                break;
            }
            if l > total { plen -= l - total } else { plen += total - l }
        }
        let mut bytes = vec![];
        let mut packets = vec![];
        if lead {
            let p = SPacket::Pingresp;
            bytes.extend(p.encode());
            packets.push((bytes.len(), p));
        }
        let start = bytes.len();
        bytes.extend(pkt.encode());
        packets.push((bytes.len(), pkt));
        let cuts: Vec<usize> = if shape == 3 {
            let c = bytes.len() as i64 - (p2 as i64 + d);
            if c > start as i64 && (c as usize) < bytes.len() { vec![c as usize] } else { vec![] }
        } else {
            vec![]
        };
        deliver_cut(&mut sys, &bytes, &cuts, &packets, true);
        if eof && !sys.dead {
            sys.apply(Ev::Eof);
        }
        sys.finish();
        sys.m.hits.push("packet-split");
        sys.events = vec![format!("PUBLISH of {} bytes (k={} d={} shape={}), cuts {:?}, lead={}, then {}", total, k, d, shape, cuts, lead, if eof { "end-of-stream" } else { "silence" })];
        sys.report(ex, &["packet-split"]);
    })
}

pub fn scenario(name: &str, params: &Value) -> Scenario {
    let params = params.clone();
    let name = name.to_string();
    if name == "C03/after-big" {
        return after_big("C03", name, params);
    }
    if name == "C03/burst" {
        return burst("C03", name, params);
    }
    if name == "C03/handover" {
        return handover(name, params);
    }
    if name == "C03/pow2" {
        return pow2(name, params);
    }
    if name == "C03/short" {
        let max_len = params["max_len"].as_u64().unwrap_or(17) as usize;
        return Box::new(move |chz, ex| {
            let mut sys = Sys::new("C03", &name, chz);
            sys.params = params.clone();
            let Some(sid) = setup(&mut sys) else {
                return sys.report(ex, &[]);
            };
            let menu = small_packets(sid, 2, 3, &sys);
            // choose a sequence of 2 or 3 packets (acks at most once each, PUBLISH may repeat)
            let n = 2 + chz.choose(2);
            let mut seq: Vec<SPacket> = vec![];
            let mut used = vec![false; menu.len()];
            let mut total = 0usize;
            for _ in 0..n {
                let cands: Vec<usize> = (0..menu.len())
                    .filter(|&i| (i >= 3 || !used[i]) && total + menu[i].encode().len() <= max_len)
                    .collect();
                if cands.is_empty() {
                    break;
                }
                let c = cands[chz.choose(cands.len())];
                used[c] = true;
                total += menu[c].encode().len();
                seq.push(menu[c].clone());
            }
            let mut bytes = vec![];
            let mut packets = vec![];
            for p in &seq {
                bytes.extend(p.encode());
                packets.push((bytes.len(), p.clone()));
            }
            let pending_between = chz.choose(2) == 1;
            let mut cuts = vec![];
            for off in 1..bytes.len() {
                if chz.choose(2) == 1 {
                    cuts.push(off);
                }
            }
            let split = cuts.iter().any(|c| !packets.iter().any(|(e, _)| e == c));
            deliver_cut(&mut sys, &bytes, &cuts, &packets, pending_between);
            sys.finish();
            if split {
                sys.m.hits.push("packet-split");
            }
            sys.report(ex, &["packet-split"]);
        });
    }
    if name == "C03/eof" {
        // end-of-stream / read error after every prefix of a short multi-packet stream, under every
        // composition of that prefix: every packet completely received before it is observed, then
        // run() ends with SocketClosed - never earlier, never swallowed
        let max_len = params["max_len"].as_u64().unwrap_or(9) as usize;
        return Box::new(move |chz, ex| {
            let mut sys = Sys::new("C03", &name, chz);
            sys.params = params.clone();
            let Some(sid) = setup(&mut sys) else {
                return sys.report(ex, &[]);
            };
            let menu = small_packets(sid, 2, 3, &sys);
            let mut seq: Vec<SPacket> = vec![];
            let mut used = vec![false; menu.len()];
            let mut total = 0usize;
            for _ in 0..2 {
                let cands: Vec<usize> = (0..menu.len())
                    .filter(|&i| (i >= 3 || !used[i]) && total + menu[i].encode().len() <= max_len)
                    .collect();
                if cands.is_empty() {
                    break;
                }
                let c = cands[chz.choose(cands.len())];
                used[c] = true;
                total += menu[c].encode().len();
                seq.push(menu[c].clone());
            }
            let mut bytes = vec![];
            let mut packets = vec![];
            for p in &seq {
                bytes.extend(p.encode());
                packets.push((bytes.len(), p.clone()));
            }
            // the transport ends after `keep` bytes
            let keep = chz.choose(bytes.len() + 1);
            let bytes = bytes[..keep].to_vec();
            let packets: Vec<(usize, SPacket)> = packets.into_iter().filter(|(e, _)| *e <= keep).collect();
            let pending_between = chz.choose(2) == 1;
            let read_error = chz.choose(2) == 1;
            let mut cuts = vec![];
            for off in 1..bytes.len() {
                if chz.choose(2) == 1 {
                    cuts.push(off);
                }
            }
            if !bytes.is_empty() {
                deliver_cut(&mut sys, &bytes, &cuts, &packets, pending_between);
            }
            sys.apply(if read_error { Ev::ReadErr } else { Ev::Eof });
            sys.finish();
            sys.m.hits.push("packet-split");
            sys.report(ex, &["packet-split"]);
        });
    }
    if name == "C03/aligned" {
        let shifts = params["shifts"].as_u64().unwrap_or(48) as usize;
        let all_cuts = params["all_cuts"].as_bool().unwrap_or(false);
        let wide = params["wide"].as_u64().unwrap_or(0) as usize;
        return Box::new(move |chz, ex| {
            // the first `shifts` lead-in sizes get every family of cuts; the sizes beyond (up to
            // `wide`) only the deliveries in large reads, which is where a read can fill the
            // receive allocation to its last byte
            let shift = chz.choose(wide.max(shifts));
            let mut sys = Sys::new("C03", &name, chz);
            sys.params = params.clone();
            let Some(sid) = setup(&mut sys) else {
                return sys.report(ex, &[]);
            };
            let mk = |qos: u8, pid: u16, plen: usize, tag: u8| SPacket::Publish {
                dup: false,
                qos,
                retain: false,
                topic: "in/t".into(),
                pid: if qos > 0 { Some(pid) } else { None },
                props: vec![Prop::var(P_SUBSCRIPTION_ID, sid)],
                payload: (0..plen).map(|i| (i as u8).wrapping_mul(7).wrapping_add(tag)).collect(),
            };
            let seq = vec![
                mk(0, 0, shift, 1),
                mk(1, 11, 686, 2),
                mk(1, 12, 186, 3),
                mk(2, 13, 104, 4),
                mk(1, 14, 8, 5),
                mk(0, 0, 18, 6),
                mk(1, 15, 606, 7),
            ];
            let mut bytes = vec![];
            let mut packets = vec![];
            for p in &seq {
                bytes.extend(p.encode());
                packets.push((bytes.len(), p.clone()));
            }
            let n = bytes.len();
            let pending_between = chz.choose(2) == 1;
            let fam = if shift < shifts { chz.choose(3) } else { [0usize, 2][chz.choose(2)] };
            let cuts: Vec<usize> = match fam {
                0 => vec![],
                1 => {
                    let anchors: Vec<usize> = packets
                        .iter()
                        .map(|(e, _)| *e)
                        .chain((1..=n / 256).map(|k| k * 256))
                        .collect();
                    let pos: Vec<usize> = (1..n)
                        .filter(|&off| all_cuts || anchors.iter().any(|&a| off + 6 >= a && off <= a + 6))
                        .collect();
                    vec![pos[chz.choose(pos.len())]]
                }
                _ => {
                    let chunks = [1usize, 2, 3, 5, 7, 64, 255, 256, 257, 511, 512, 513, 1019, 1024];
                    let c = if shift < shifts {
                        chunks[chz.choose(chunks.len())]
                    } else {
                        chunks[6 + chz.choose(chunks.len() - 6)]
                    };
                    (1..n).step_by(c).collect()
                }
            };
            deliver_cut(&mut sys, &bytes, &cuts, &packets, pending_between);
            sys.finish();
            sys.m.hits.push("packet-split");
            sys.report(ex, &["packet-split"]);
        });
    }
    // ---- long streams
    let big = params["big"].as_bool().unwrap_or(false);
    let narrow = params["narrow"].as_bool().unwrap_or(false);
    // a four-byte remaining length: one packet size, cuts only near the interesting offsets
    let huge = params["huge"].as_bool().unwrap_or(false);
    let pairs = params["pairs"].as_bool().unwrap_or(true);
    Box::new(move |chz, ex| {
        let mut sizes: Vec<usize> = vec![];
        if narrow {
            for r in [127..=129usize, 511..=514, 1023..=1026, 1536..=1536, 2047..=2050, 16384..=16386] {
                sizes.extend(r);
            }
        } else {
            for r in [126..=131usize, 510..=516, 1022..=1028, 1534..=1540, 2046..=2052, 4096..=4096, 16383..=16390] {
                sizes.extend(r);
            }
        }
        if big {
            sizes.push(70_000);
        }
        if huge {
            sizes = vec![2_097_160];
        }
        let size = sizes[chz.choose(sizes.len())];
        let lead = chz.choose(3);
        let mut sys = Sys::new("C03", &name, chz);
        sys.params = params.clone();
        let Some(sid) = setup(&mut sys) else {
            return sys.report(ex, &[]);
        };
        let mut seq: Vec<SPacket> = vec![];
        if lead >= 1 {
            seq.push(SPacket::Pingresp);
        }
        if lead >= 2 {
            seq.push(sys.ack_for(2, 0, "").unwrap());
        }
        // PUBLISH of exactly `size` bytes: 1 + len(rem) + 2+4 (topic "in/t") + 1 + 2 (sub id prop: 0b id + 1) + payload
        let mut payload_len = size.saturating_sub(12);
        let mut pkt;
        let mut tries = 0;
        loop {
            pkt = SPacket::Publish {
                dup: false,
                qos: 0,
                retain: false,
                topic: "in/t".into(),
                pid: None,
                props: vec![Prop::var(P_SUBSCRIPTION_ID, sid)],
                payload: (0..payload_len).map(|i| (i * 31 % 251) as u8).collect(),
            };
            let l = pkt.encode().len();
            tries += 1;
            // some total sizes do not exist (the remaining length field grows by a byte at 128 / 16384 / ...)
            if l == size || tries > 6 {
                break;
            }
            if l > size {
                payload_len -= l - size;
            } else {
                payload_len += size - l;
            }
        }
        let pkt_len = pkt.encode().len();
        seq.push(pkt);
        seq.push(inbound(1, false, 3, &[sid], "tail"));
        let mut bytes = vec![];
        let mut packets = vec![];
        for p in &seq {
            bytes.extend(p.encode());
            packets.push((bytes.len(), p.clone()));
        }
        let n = bytes.len();
        let pending_between = chz.choose(2) == 1;
        let family = if huge { [1, 3][chz.choose(2)] } else { chz.choose(3) };
        let cuts: Vec<usize> = match family {
            0 => {
                // every single cut position (long packets: all positions near the interesting
                // offsets plus every 7th elsewhere, so that the run stays affordable)
                let mut pos: Vec<usize> = vec![];
                let interesting: Vec<usize> = packets
                    .iter()
                    .map(|(e, _)| *e)
                    .chain((1..=n / 512).map(|k| k * 512))
                    .collect();
                for off in 1..n {
                    let near = interesting.iter().any(|&i| off + 8 >= i && off <= i + 8);
                    if n <= 2100 || near || off % 7 == 0 {
                        pos.push(off);
                    }
                }
                vec![pos[chz.choose(pos.len())]]
            }
            1 => {
                // pairs of cuts near packet boundaries and multiples of 512
                let mut near: Vec<usize> = vec![];
                let anchors: Vec<usize> = packets
                    .iter()
                    .map(|(e, _)| *e)
                    .chain((1..=(n / 512).min(6)).map(|k| k * 512))
                    .collect();
                for a in anchors {
                    // (the fixed header of a packet with a four-byte remaining length is five bytes long)
                    for d in -3i64..=(if huge { 7 } else { 3 }) {
                        let o = a as i64 + d;
                        if o >= 1 && (o as usize) < n && !near.contains(&(o as usize)) {
                            near.push(o as usize);
                        }
                    }
                }
                near.sort();
                let i = chz.choose(near.len());
                let j = if pairs { chz.choose(near.len()) } else { i };
                let mut c = vec![near[i], near[j]];
                c.sort();
                c.dedup();
                c
            }
            3 => {
                // the first bytes of the long packet (type byte, every byte of its remaining length,
                // the first bytes of the body) in reads of one byte each
                let start = packets[packets.len() - 2].0 - pkt_len;
                (start + 1..=start + 8).collect()
            }
            _ => {
                let mut chunks: Vec<usize> = (1..=40).collect();
                chunks.extend([511, 512, 513, 1023, 1024, 1025]);
                let c = chunks[chz.choose(chunks.len())];
                if n / c > 40_000 {
                    // a 2 MB packet in 1-byte reads is covered by the dedicated trickle run of C04
                    (1..n).step_by(c.max(53)).collect()
                } else {
                    (1..n).step_by(c).filter(|&o| o > 0).collect()
                }
            }
        };
        deliver_cut(&mut sys, &bytes, &cuts, &packets, pending_between);
        sys.finish();
        sys.m.hits.push("packet-split");
        sys.report(ex, &["packet-split"]);
    })
}
