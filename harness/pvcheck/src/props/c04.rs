//! C04 - no inbound bytes, packet order or transport fault can panic or wedge the client.
//!
//! The oracle here is deliberately weak (the property is): no panic, no abort, and at quiescence the
//! affected call has either returned or is still serving with nothing unread. The reference model is
//! only used to bring the client into the phase under test.

use super::*;
use crate::spec::*;
use crate::sys::*;
use crate::world::CtxCmd;
use pvcore::refcodec::*;

pub const SUBID_ASSERT: &str = "Subscription identifier support is required";

pub fn check(tier: Tier) -> Check {
    let parts = vec![
        Part::new("C04/bytes", json!({"len": tier.pick(4, 5)}), 0, tier.pick(40, 900)),
        Part::new("C04/prefix2", json!({}), 0, tier.pick(40, 300)),
        Part::new("C04/mutations", json!({"huge": tier == Tier::Thorough}), 0, tier.pick(40, 600)),
        Part::new("C04/faults", json!({}), 0, tier.pick(40, 300)),
        // well-formed packets - expected or not - in richer session states
        Part::new("C04/states", json!({"depth": tier.pick(2, 3), "pairs": false}), 0, tier.pick(40, 600)),
        Part::new("C04/states", json!({"depth": tier.pick(0, 1), "pairs": true}), 0, tier.pick(40, 600)),
        // well-formed big packets followed by fragments (buffer management must not panic or lose input)
        Part::new("C04/after-big", json!({"sizes": [9000, 70_000, 1_100_000]}), 0, 120),
        // session resumes under a Receive Maximum smaller than the number of open exchanges (arithmetic)
        // every error the client hands out is printed too (Display / Debug / source(), spec::err_dig):
        // reason strings whose every byte offset lies inside a multi-byte character for some member
        Part::new("C04/utf8-align", json!({}), 0, 60),
        // thousands of well-formed packets with no request of the application in between
        Part::new("C04/burst", json!({"max": tier.pick(8193, 65537)}), 0, 120),
        Part::new("C04/resume", json!({"depth": 4, "expiry": 1000, "secs_ago": 10, "r2": 1}), 0, 60),
        Part::new("C04/resume", json!({"depth": 4, "expiry": 1000, "secs_ago": 10, "r": 2, "r2": 2}), 0, 60),
        Part::new("C04/trickle", json!({"size": tier.pick(65_536, 2_100_000)}), 0, 120),
    ];
    Check {
        also_rel: true,
        property: "C04",
        level: "fault_enumeration",
        rule: "phases {connect(), authorize(), run() idle, run() with one operation of every kind outstanding and a live stream} x inputs {(1) all byte strings up to the stated length over an 18-symbol boundary alphabet (0x00 0x01 0x02 0x03 0x7f 0x80 0xff and one fixed-header byte per server packet type), optionally followed by end-of-stream (strings whose length field announces more than 4 MiB, which the client allocates and zeroes, are delivered by the other input classes instead); all 65536 two-byte prefixes x three tails; (2) for a valid exemplar of every server packet type carrying every property: every truncation, every single-bit flip, every byte replaced by 0x00/0x01/0x7f/0x80/0xff, remaining length set to 0 / +-1 / maximum / over-long / non-minimal, every property spliced into every packet type, every reason byte 0..=255; (3) every packet type at every phase (well-formed, for known and unknown identifiers); (4) end-of-stream and read error at every byte offset in whole-packet and 1-byte chunking, write error (or Ok(0)) at every write, a transient read error at every byte offset followed by the rest of the input - each for six io::ErrorKinds (ConnectionReset, WouldBlock, Interrupted, UnexpectedEof, TimedOut, Other); (5) from a session with three subscriptions (streams taken / response kept), a ping, QoS 1 and QoS 2 publishes in every phase outstanding and an unreleased inbound QoS 2 identifier: every bounded continuation by conformant events (streams and responses dropped, operations cancelled, acknowledgements, messages), followed by one or two packets from a menu of every acknowledgement type for every known and an unknown identifier, SUBACK / UNSUBACK for publish identifiers and vice versa, PUBLISH with every QoS and subscription-identifier lists naming live, dropped and unknown subscriptions in several orders, unsolicited PINGRESP / PUBREL / AUTH / CONNACK / DISCONNECT; (6) a long PUBLISH trickled in always-ready 1-byte reads in a child process}; both the overflow-checked and the wrapping-arithmetic build; the C17 resume machine with a smaller Receive Maximum on the second connection (C04/resume); bursts of up to 8193 (thorough 65537) well-formed packets (C04/burst); every error printed, reason strings with multi-byte characters at every alignment (C04/utf8-align); non-trivial = the input made a call return an error".into(),
        assumptions: vec![
            "the documented assertion on brokers without subscription identifier support is exempt".into(),
            "which error is returned is unconstrained".into(),
        ],
        parts,
    }
}

fn lenient(sys: &mut Sys) {
    sys.m.check_wire = false;
    sys.m.check_ops = false;
    sys.m.check_streams = false;
    sys.m.check_ctx = false;
    sys.m.check_client_acks = false;
    sys.m.exempt_panic = Some(SUBID_ASSERT);
    sys.auto_exit = false;
}

pub const N_PHASES: usize = 4;

pub const ERR_KINDS: [std::io::ErrorKind; 6] = [
    std::io::ErrorKind::ConnectionReset,
    std::io::ErrorKind::WouldBlock,
    std::io::ErrorKind::Interrupted,
    std::io::ErrorKind::UnexpectedEof,
    std::io::ErrorKind::TimedOut,
    std::io::ErrorKind::Other,
];

/// bring the client into phase `ph`; afterwards the model is no longer consulted
pub fn enter_phase(sys: &mut Sys, ph: usize) {
    match ph {
        0 => {
            sys.events.push("phase: connect() awaiting CONNACK".into());
            sys.m.connect(ConnectSpec::default());
            sys.w.cmd(CtxCmd::Connect(ConnectSpec::default()));
            sys.sync();
        }
        1 => {
            sys.events.push("phase: authorize() awaiting answer".into());
            sys.connect_with(
                ConnectSpec {
                    auth_method: Some("m".into()),
                    auth_data: Some(vec![1]),
                    ..Default::default()
                },
                SPacket::Auth {
                    reason: 0x18,
                    props: vec![Prop::str(P_AUTH_METHOD, "m"), Prop::bin(P_AUTH_DATA, &[2])],
                    form: 2,
                },
            );
            if !sys.dead {
                let a = AuthSpec {
                    reason: Some(0x18),
                    method: Some("m".into()),
                    data: Some(vec![3]),
                    user_props: vec![],
                };
                sys.m.authorize(&a);
                sys.w.cmd(CtxCmd::Authorize(a));
                sys.sync();
            }
        }
        2 => {
            sys.events.push("phase: run() idle".into());
            sys.bring_up(vec![]);
        }
        _ => {
            sys.events.push("phase: run() with operations outstanding".into());
            sys.bring_up(vec![]);
            // pid 1 / sub id 1: live stream
            sys.apply(Ev::Start(OpSpec::Subscribe(SubscribeSpec::simple("s/live"))));
            if !sys.dead {
                let ack = sys.ack_for(0, 0, "").unwrap();
                sys.apply(Ev::Deliver(ack));
                sys.apply(Ev::TakeStream(0));
            }
            sys.apply(Ev::Start(OpSpec::Ping));
            sys.apply(Ev::Start(OpSpec::Publish(PublishSpec::simple(1, "t", b"a")))); // pid 2
            sys.apply(Ev::Start(OpSpec::Publish(PublishSpec::simple(2, "t", b"b")))); // pid 3
            sys.apply(Ev::Start(OpSpec::Subscribe(SubscribeSpec::simple("s/2")))); // pid 4
            sys.apply(Ev::Start(OpSpec::Unsubscribe(UnsubscribeSpec::simple("s/2")))); // pid 5
        }
    }
    lenient(sys);
}

/// raw delivery (the model is not fed)
fn feed(sys: &mut Sys, bytes: &[u8], bytewise: bool) {
    if sys.dead || bytes.is_empty() {
        return;
    }
    sys.events.push(format!(
        "Deliver{} {}",
        if bytewise { "Bytewise" } else { "" },
        hex_head(bytes)
    ));
    sys.classes.push("DeliverRaw".into());
    sys.transitions += 1;
    if bytewise {
        for b in bytes {
            sys.w.deliver(vec![*b]);
        }
    } else {
        sys.w.deliver(bytes.to_vec());
    }
    sys.sync();
}

fn fault(sys: &mut Sys, k: usize) {
    if sys.dead {
        return;
    }
    match k {
        0 => {}
        1 => {
            sys.events.push("Eof".into());
            sys.classes.push("Eof".into());
            sys.w.eof();
            sys.sync();
        }
        _ => {
            sys.events.push("ReadError".into());
            sys.classes.push("ReadError".into());
            sys.w.read_error();
            sys.sync();
        }
    }
}

fn finish(mut sys: Sys, ex: &mut Exec) {
    // an error return is the non-trivial outcome
    let errored = sys
        .w
        .obs_since(0)
        .iter()
        .any(|o| matches!(o, crate::world::Ob::Ctx { res, .. } if res.starts_with("Err:")));
    if errored {
        sys.m.hits.push("call-returned-error");
    }
    // give the violation a witness that names the input, not the schedule
    for v in sys.violations.iter_mut() {
        let last = sys.events.iter().rev().find(|e| e.starts_with("Deliver")).cloned().unwrap_or_default();
        let _ = last;
        // group by phase and failure (panic message and location), not by the individual input
        let what = v.detail.lines().next().unwrap_or("").to_string();
        v.witness = format!("{} | {}", sys.events.first().cloned().unwrap_or_default(), what);
    }
    sys.report(ex, &["call-returned-error"]);
}

const ALPHABET: [u8; 18] = [
    0x00, 0x01, 0x02, 0x03, 0x7f, 0x80, 0xff, 0x20, 0x30, 0x40, 0x50, 0x62, 0x70, 0x90, 0xb0, 0xd0, 0xe0,
    0xf0,
];

fn all_props() -> Vec<Prop> {
    vec![
        Prop::byte(1, 1),
        Prop::u32(2, 5),
        Prop::str(3, "ct"),
        Prop::str(8, "rt"),
        Prop::bin(9, &[1, 2]),
        Prop::var(11, 1),
        Prop::u32(17, 9),
        Prop::str(18, "id"),
        Prop::u16(19, 60),
        Prop::str(21, "m"),
        Prop::bin(22, &[7]),
        Prop::byte(23, 1),
        Prop::u32(24, 1),
        Prop::byte(25, 1),
        Prop::str(26, "ri"),
        Prop::str(28, "sr"),
        Prop::str(31, "rs"),
        Prop::u16(33, 5),
        Prop::u16(34, 5),
        Prop::u16(35, 5),
        Prop::byte(36, 1),
        Prop::byte(37, 1),
        Prop::user("k", "v"),
        Prop::u32(39, 100),
        Prop::byte(40, 1),
        Prop::byte(41, 1),
        Prop::byte(42, 1),
    ]
}

/// valid exemplars of every server packet type, carrying every property legal for the type
pub fn exemplars() -> Vec<SPacket> {
    let ackp = vec![Prop::str(31, "why"), Prop::user("k", "v")];
    let mut v = vec![
        SPacket::Connack {
            session_present: true,
            reason: 0,
            props: [17u8, 33, 36, 37, 39, 18, 34, 31, 38, 40, 41, 42, 19, 26, 28, 21, 22]
                .iter()
                .map(|id| all_props().into_iter().find(|p| p.id == *id).unwrap())
                .collect(),
        },
        SPacket::Connack {
            session_present: false,
            reason: 0x87,
            props: vec![Prop::str(31, "no")],
        },
        SPacket::Auth {
            reason: 0x18,
            props: vec![Prop::str(21, "m"), Prop::bin(22, &[1]), Prop::str(31, "c"), Prop::user("k", "v")],
            form: 2,
        },
        SPacket::Auth {
            reason: 0,
            props: vec![],
            form: 0,
        },
        SPacket::Pingresp,
        SPacket::Suback {
            pid: 4,
            props: ackp.clone(),
            reasons: vec![1],
        },
        SPacket::Unsuback {
            pid: 5,
            props: ackp.clone(),
            reasons: vec![0],
        },
        SPacket::Suback {
            pid: 2,
            props: vec![],
            reasons: vec![0x80, 2],
        },
        SPacket::Disconnect {
            reason: 0x8b,
            props: vec![Prop::str(31, "bye"), Prop::str(28, "srv"), Prop::user("k", "v")],
            form: 2,
        },
        SPacket::Disconnect {
            reason: 0,
            props: vec![],
            form: 0,
        },
    ];
    for q in 0..3u8 {
        v.push(SPacket::Publish {
            dup: q == 2,
            qos: q,
            retain: q == 1,
            topic: "in/t".into(),
            pid: if q > 0 { Some(7) } else { None },
            props: [1u8, 2, 35, 8, 9, 38, 11, 3]
                .iter()
                .map(|id| all_props().into_iter().find(|p| p.id == *id).unwrap())
                .collect(),
            payload: b"payload".to_vec(),
        });
    }
    for (ty, pid) in [(4u8, 2u16), (5, 3), (6, 7), (7, 3), (4, 9), (5, 9), (7, 9)] {
        v.push(SPacket::Ack {
            ty,
            pid,
            reason: if ty >= 6 { 0x92 } else { 0x10 },
            props: ackp.clone(),
            form: 4,
        });
        v.push(SPacket::Ack {
            ty,
            pid,
            reason: 0,
            props: vec![],
            form: 2,
        });
    }
    v
}

fn with_prop(p: &SPacket, extra: Prop) -> Option<SPacket> {
    let mut p = p.clone();
    match &mut p {
        SPacket::Connack { props, .. }
        | SPacket::Publish { props, .. }
        | SPacket::Suback { props, .. }
        | SPacket::Unsuback { props, .. } => props.insert(0, extra),
        SPacket::Ack { props, form, .. } => {
            *form = 4;
            props.push(extra)
        }
        SPacket::Disconnect { props, form, .. } => {
            *form = 2;
            props.push(extra)
        }
        SPacket::Auth { props, form, .. } => {
            *form = 2;
            props.push(extra)
        }
        _ => return None,
    }
    Some(p)
}

fn with_reason(p: &SPacket, r: u8) -> Option<SPacket> {
    let mut p = p.clone();
    match &mut p {
        SPacket::Connack { reason, .. } => *reason = r,
        SPacket::Ack { reason, form, .. } => {
            *reason = r;
            if *form == 2 {
                *form = 3;
            }
        }
        SPacket::Disconnect { reason, form, .. } => {
            *reason = r;
            if *form == 0 {
                *form = 1;
            }
        }
        SPacket::Auth { reason, form, .. } => {
            *reason = r;
            *form = 2;
        }
        SPacket::Suback { reasons, .. } | SPacket::Unsuback { reasons, .. } => reasons[0] = r,
        _ => return None,
    }
    Some(p)
}

/// replace the remaining-length field of a packet
fn with_remlen(bytes: &[u8], new: &[u8]) -> Vec<u8> {
    let mut i = 1;
    while i < bytes.len() && bytes[i] & 0x80 != 0 {
        i += 1;
    }
    let mut v = vec![bytes[0]];
    v.extend_from_slice(new);
    v.extend_from_slice(&bytes[(i + 1).min(bytes.len())..]);
    v
}

fn remlen_of(bytes: &[u8]) -> u32 {
    (frame_len(bytes).ok().flatten().unwrap_or(2) as u32).saturating_sub(2)
}

fn vbi(v: u32) -> Vec<u8> {
    let mut o = vec![];
    vbi_encode(v.min(268_435_455), &mut o);
    o
}

/// Richer session states: three subscriptions (two streams taken, one response kept), a ping, a QoS 1
/// publish, a QoS 2 publish between its phases and one awaiting PUBREC outstanding, one inbound QoS 2
/// identifier unreleased; then `depth` further conformant events (streams / responses dropped,
/// operations cancelled, acknowledgements, messages) under the model's eyes; then - model off, oracle
/// "no panic, no stall" - one or two well-formed packets from a menu of everything a server can send
/// for known and unknown identifiers, whether or not the state calls for it.
fn states(name: String, params: Value) -> Scenario {
    use super::common::*;
    use crate::model::St;
    let depth = params["depth"].as_u64().unwrap_or(2) as usize;
    let pairs = params["pairs"].as_bool().unwrap_or(false);
    Box::new(move |chz, ex| {
        let mut sys = Sys::new("C04", &name, chz);
        sys.params = params.clone();
        sys.m.check_client_acks = false;
        let r = [None, Some(3u16)][chz.choose(2)];
        sys.bring_up(r.map(receive_max).unwrap_or_default());
        for i in 0..3 {
            sys.apply(Ev::Start(OpSpec::Subscribe(SubscribeSpec::simple(&format!("s/{}", i)))));
            if sys.dead {
                return finish(sys, ex);
            }
            let ack = sys.ack_for(i, 0, "").unwrap();
            sys.apply(Ev::Deliver(ack));
            if i < 2 {
                sys.apply(Ev::TakeStream(i));
            }
        }
        sys.apply(Ev::Start(OpSpec::Ping));
        sys.apply(Ev::Start(OpSpec::Publish(PublishSpec::simple(1, "t/a", b"one"))));
        sys.apply(Ev::Start(OpSpec::Publish(PublishSpec::simple(2, "t/b", b"two"))));
        if !sys.dead {
            let rec = sys.ack_for(5, 0, "").unwrap();
            sys.apply(Ev::Deliver(rec));
        }
        sys.apply(Ev::Start(OpSpec::Publish(PublishSpec::simple(2, "t/c", b"three"))));
        if sys.dead {
            return finish(sys, ex);
        }
        let ids: Vec<u32> = sys.m.subs.iter().map(|x| x.sub_id.unwrap()).collect();
        sys.apply(Ev::Deliver(inbound(2, false, 77, &[ids[0]], "unreleased")));
        for _ in 0..depth {
            if sys.dead {
                break;
            }
            let mut e = vec![];
            for i in 0..sys.m.streams.len() {
                if sys.m.streams[i].alive {
                    e.push(Ev::DropStream(i));
                }
            }
            if sys.m.subs[2].stream.is_none() && sys.m.subs[2].receiver_alive {
                e.push(Ev::DropRsp(2));
                e.push(Ev::TakeStream(2));
            }
            for i in 3..sys.m.ops.len() {
                let o = &sys.m.ops[i];
                // (a QoS 2 publish abandoned before its PUBREC is the recorded finding K-C15-1)
                let q2_early = matches!(&o.spec, OpSpec::Publish(p) if p.qos() == 2) && !matches!(o.st, St::AwaitComp);
                if o.alive && o.st != St::Done && !q2_early {
                    e.push(Ev::Cancel(i));
                }
            }
            e.extend(broker_acks(&sys, false, false));
            let t = sys.transitions;
            e.push(Ev::Deliver(inbound(0, false, 0, &[ids[1]], &format!("m{}", t))));
            e.push(Ev::Deliver(inbound(1, false, 31, &ids, &format!("a{}", t))));
            e.push(Ev::Deliver(pubrel_in(77)));
            if sys.m.ops.len() < 9 {
                e.push(Ev::Start(OpSpec::Unsubscribe(UnsubscribeSpec::simple("s/0"))));
            }
            let i = chz.choose(e.len());
            sys.apply(e[i].clone());
        }
        if sys.dead {
            return finish(sys, ex);
        }
        // ---- the menu
        let mut pids: Vec<u16> = sys.m.ops.iter().filter_map(|o| o.pid).collect();
        pids.sort();
        pids.dedup();
        // identifiers that differ from a known one (and from 0, the ping's) by a multiple of 256: a
        // lookup key that folds the packet type into the identifier's high byte confuses them
        let p0 = pids.first().copied().unwrap_or(1);
        for k in [1u16, 2, 3, 6, 9] {
            pids.push(256 * k);
            // (identifiers may be anywhere in 1..=65535: wrap around, never 0)
            let q = p0.wrapping_add(256 * k);
            if q != 0 {
                pids.push(q);
            }
        }
        pids.push(999);
        let mut menu: Vec<SPacket> = vec![];
        for &pid in &pids {
            for ty in 4u8..=7 {
                menu.push(SPacket::Ack { ty, pid, reason: 0, props: vec![], form: 2 });
                menu.push(SPacket::Ack { ty, pid, reason: if ty >= 6 { 0x92 } else { 0x80 }, props: vec![], form: 3 });
            }
            menu.push(SPacket::Suback { pid, props: vec![], reasons: vec![0] });
            menu.push(SPacket::Suback { pid, props: vec![], reasons: vec![0x80, 1] });
            menu.push(SPacket::Unsuback { pid, props: vec![], reasons: vec![0] });
        }
        let rev: Vec<u32> = ids.iter().rev().copied().collect();
        for subids in [vec![], vec![999u32], ids.clone(), rev, vec![ids[0], ids[2]], vec![ids[1], 999, ids[2], ids[1]]] {
            for q in 0u8..=2 {
                for pid in [77u16, 78] {
                    if q == 0 && pid == 78 {
                        continue;
                    }
                    menu.push(inbound(q, pid == 77, pid, &subids, "menu"));
                }
            }
        }
        menu.push(SPacket::Pingresp);
        menu.push(pubrel_in(78));
        menu.push(SPacket::Disconnect { reason: 0x8b, props: vec![], form: 2 });
        menu.push(SPacket::Auth { reason: 0x18, props: vec![Prop::str(P_AUTH_METHOD, "m")], form: 2 });
        menu.push(SPacket::Connack { session_present: false, reason: 0, props: vec![] });
        lenient(&mut sys);
        for _ in 0..(if pairs { 2 } else { 1 }) {
            let p = menu[chz.choose(menu.len())].clone();
            sys.events.push(format!("(model off) {}", p.brief()));
            feed(&mut sys, &p.encode(), false);
        }
        feed(&mut sys, &SPacket::Pingresp.encode(), false);
        fault(&mut sys, chz.choose(2));
        finish(sys, ex)
    })
}

pub fn scenario(name: &str, params: &Value) -> Scenario {
    let params = params.clone();
    let name = name.to_string();
    if name == "C04/states" {
        return states(name, params);
    }
    if name == "C04/burst" {
        return super::c03::burst("C04", name, params);
    }
    if name == "C04/utf8-align" {
        return super::c02::utf8_align("C04", name, params);
    }
    if name == "C04/resume" {
        return super::c17::scenario_for("C04", &name, &params);
    }
    if name == "C04/after-big" {
        return super::c03::after_big("C04", name, params);
    }
    match name.as_str() {
        "C04/bytes" => {
            let maxlen = params["len"].as_u64().unwrap_or(3) as usize;
            Box::new(move |chz, ex| {
                let ph = chz.choose(N_PHASES);
                let len = 1 + chz.choose(maxlen);
                let mut bytes = vec![];
                for _ in 0..len {
                    bytes.push(ALPHABET[chz.choose(ALPHABET.len())]);
                }
                let tail = chz.choose(2);
                // a five-byte string can announce up to 256 MiB, which the client allocates and
                // zeroes; those inputs (4 x 18 x 8 x 9 x 2 of 16 million) are left to C04/prefix2 and
                // C04/mutations, which deliver the same length fields, so that this part completes
                if let Ok(Some(n)) = frame_len(&bytes) {
                    if n > (4 << 20) {
                        return;
                    }
                }
                let mut sys = Sys::new("C04", &name, chz);
                sys.params = params.clone();
                enter_phase(&mut sys, ph);
                feed(&mut sys, &bytes, false);
                fault(&mut sys, tail);
                finish(sys, ex);
            })
        }
        "C04/prefix2" => Box::new(move |chz, ex| {
            let ph = chz.choose(N_PHASES);
            let b0 = chz.choose(256) as u8;
            let b1 = chz.choose(256) as u8;
            let tail: &[u8] = [&[][..], &[0x00][..], &[0xff, 0xff, 0xff, 0x7f][..]][chz.choose(3)];
            let mut bytes = vec![b0, b1];
            bytes.extend_from_slice(tail);
            let mut sys = Sys::new("C04", &name, chz);
            sys.params = params.clone();
            enter_phase(&mut sys, ph);
            feed(&mut sys, &bytes, false);
            finish(sys, ex);
        }),
        "C04/mutations" => {
            let exs = exemplars();
            let props = all_props();
            let huge = params["huge"].as_bool().unwrap_or(false);
            Box::new(move |chz, ex| {
                let ph = chz.choose(N_PHASES);
                let e = &exs[chz.choose(exs.len())];
                let base = e.encode();
                let kind = chz.choose(7);
                let bytes: Vec<u8> = match kind {
                    0 => base.clone(), // every packet type at every phase, well-formed
                    1 => {
                        let k = chz.choose(base.len());
                        base[..k].to_vec()
                    }
                    2 => {
                        let bit = chz.choose(base.len() * 8);
                        let mut b = base.clone();
                        b[bit / 8] ^= 1 << (bit % 8);
                        b
                    }
                    3 => {
                        let pos = chz.choose(base.len());
                        let val = [0x00u8, 0x01, 0x7f, 0x80, 0xff][chz.choose(5)];
                        let mut b = base.clone();
                        b[pos] = val;
                        b
                    }
                    4 => {
                        let r = remlen_of(&base);
                        let variants: Vec<Vec<u8>> = vec![
                            vec![0],
                            vbi(r + 1),
                            vbi(r.saturating_sub(1)),
                            // 256 MiB announced (thorough); 2 MiB in the quick tier: the client
                            // allocates what the length field says
                            if huge { vec![0xff, 0xff, 0xff, 0x7f] } else { vec![0xff, 0xff, 0x7f] },
                            vec![0xff, 0xff, 0xff, 0xff, 0x7f],
                            vec![0x80, 0x80, 0x80, 0x80, 0x00],
                            {
                                let mut v = vbi(r);
                                let n = v.len();
                                v[n - 1] |= 0x80;
                                v.push(0x00);
                                v
                            },
                        ];
                        with_remlen(&base, &variants[chz.choose(variants.len())])
                    }
                    5 => {
                        let p = props[chz.choose(props.len())].clone();
                        match with_prop(e, p) {
                            Some(x) => x.encode(),
                            None => base.clone(),
                        }
                    }
                    _ => {
                        let r = chz.choose(256) as u8;
                        match with_reason(e, r) {
                            Some(x) => x.encode(),
                            None => base.clone(),
                        }
                    }
                };
                let tail = chz.choose(2);
                let mut sys = Sys::new("C04", &name, chz);
                sys.params = params.clone();
                enter_phase(&mut sys, ph);
                feed(&mut sys, &bytes, false);
                // is it still serving? a well-formed PINGRESP afterwards must not break anything either
                feed(&mut sys, &SPacket::Pingresp.encode(), false);
                fault(&mut sys, tail);
                finish(sys, ex);
            })
        }
        "C04/faults" => {
            let exs = exemplars();
            Box::new(move |chz, ex| {
                let ph = chz.choose(N_PHASES);
                let mode = chz.choose(3);
                let mut sys = Sys::new("C04", &name, chz);
                sys.params = params.clone();
                // the kind of io::Error the transport reports must not matter
                let kind = ERR_KINDS[chz.choose(ERR_KINDS.len())];
                sys.w.set_err_kinds(kind, kind);
                sys.events.push(format!("io::ErrorKind::{:?}", kind));
                if mode == 2 {
                    // a transient read error in the middle of a packet: Err(kind) once, the rest of the
                    // packet and a PINGRESP are readable afterwards - the call returns an error, or it
                    // keeps serving and then reads on; it must not sit there with input unread
                    let e = &exs[chz.choose(exs.len())];
                    let base = e.encode();
                    let k = chz.choose(base.len() + 1);
                    enter_phase(&mut sys, ph);
                    feed(&mut sys, &base[..k], false);
                    if !sys.dead {
                        sys.events.push(format!("TransientReadError({:?}), then the remaining {} bytes and a PINGRESP", kind, base.len() - k));
                        sys.classes.push("TransientReadError".into());
                        let tk = sys.w.wire.borrow().transient_kind;
                        sys.w.read_error_once(tk);
                        sys.sync();
                        let mut rest = base[k..].to_vec();
                        rest.extend(SPacket::Pingresp.encode());
                        if !sys.dead {
                            sys.w.deliver(rest);
                            sys.sync();
                        }
                    }
                } else if mode == 0 {
                    // end-of-stream / read error at every byte offset of a packet, both chunkings
                    let e = &exs[chz.choose(exs.len())];
                    let base = e.encode();
                    let k = chz.choose(base.len() + 1);
                    let bytewise = chz.choose(2) == 1;
                    let f = 1 + chz.choose(2);
                    enter_phase(&mut sys, ph);
                    feed(&mut sys, &base[..k], bytewise);
                    fault(&mut sys, f);
                } else {
                    // write error at the k-th write of a busy session
                    let k = chz.choose(8) as u64;
                    sys.w.wire.borrow_mut().write_err_after = Some(k);
                    sys.events.push(format!("WriteErrorAfter({} writes)", k));
                    if kind == std::io::ErrorKind::Other {
                        // (instead of an error: Ok(0) for every non-empty write from the k-th write on -
                        // how some transports report a closed pipe; the call fails, it never spins)
                        let mut w = sys.w.wire.borrow_mut();
                        w.write_err_after = None;
                        w.write_zero_after = Some(k);
                    }
                    // the model cannot follow a failing transport; only panics / stalls are judged
                    lenient(&mut sys);
                    sys.check_stall = true;
                    sys.w.cmd(CtxCmd::Connect(ConnectSpec::default()));
                    sys.sync();
                    feed(
                        &mut sys,
                        &SPacket::Connack {
                            session_present: false,
                            reason: 0,
                            props: vec![],
                        }
                        .encode(),
                        false,
                    );
                    sys.w.cmd(CtxCmd::Run);
                    sys.sync();
                    for spec in [
                        OpSpec::Ping,
                        OpSpec::Publish(PublishSpec::simple(1, "t", b"a")),
                        OpSpec::Subscribe(SubscribeSpec::simple("s")),
                        OpSpec::Publish(PublishSpec::simple(0, "t", b"b")),
                    ] {
                        if sys.dead {
                            break;
                        }
                        sys.events.push(format!("Start({})", spec.brief()));
                        sys.w.start_op(spec);
                        sys.sync();
                    }
                    feed(&mut sys, &crate::props::common::inbound(1, false, 3, &[], "x").encode(), false);
                    feed(&mut sys, &crate::props::common::pubrel_in(4).encode(), false);
                }
                // (which injected answers were really consumed is part of the evidence)
                if sys.w.wire.borrow().zero_answers > 0 {
                    sys.m.hits.push("write-zero-answered");
                }
                finish(sys, ex);
            })
        }
        "C04/trickle" => {
            let size = params["size"].as_u64().unwrap_or(65_536) as usize;
            Box::new(move |chz, ex| {
                // in a child process: a stack overflow or huge allocation aborts, which cannot be caught
                let exe = std::env::current_exe().expect("MACHINERY: current_exe");
                let out = std::process::Command::new(exe)
                    .args(["trickle", &size.to_string()])
                    .output()
                    .expect("MACHINERY: cannot spawn trickle child");
                let mut sys = Sys::new("C04", &name, chz);
                sys.params = params.clone();
                sys.events.push(format!("child: PUBLISH of {} bytes in always-ready 1-byte reads", size));
                let text = String::from_utf8_lossy(&out.stdout).to_string();
                if !out.status.success() || !text.contains("TRICKLE-OK") {
                    sys.classes.push("Trickle".into());
                    sys.violations.push(pvcore::explore::Violation {
                        property: "C04".into(),
                        rule: "C04/abort-on-trickled-packet".into(),
                        witness: format!("PUBLISH of {} bytes delivered in always-ready 1-byte reads", size),
                        detail: format!(
                            "child exit status {:?}; stdout {:?}; stderr tail {:?}",
                            out.status,
                            text,
                            String::from_utf8_lossy(&out.stderr).chars().rev().take(300).collect::<String>().chars().rev().collect::<String>()
                        ),
                        replay: json!({"scenario": name, "params": params, "choices": []}),
                    });
                }
                sys.m.hits.push("call-returned-error");
                sys.report(ex, &["call-returned-error"]);
            })
        }
        _ => {
            eprintln!("MACHINERY: unknown scenario {}", name);
            std::process::exit(2);
        }
    }
}

/// child entry point: one long inbound PUBLISH in always-ready 1-byte reads, then a PINGRESP
pub fn trickle_main(size: usize) -> i32 {
    let chz = pvcore::explore::Chooser::new(vec![], 0);
    let mut sys = Sys::new("C04", "C04/trickle-child", &chz);
    sys.m.check_client_acks = false;
    sys.bring_up(vec![]);
    sys.apply(Ev::Start(OpSpec::Subscribe(SubscribeSpec::simple("s"))));
    let ack = sys.ack_for(0, 0, "").unwrap();
    sys.apply(Ev::Deliver(ack));
    sys.apply(Ev::TakeStream(0));
    let sid = sys.m.subs[0].sub_id.unwrap();
    let p = SPacket::Publish {
        dup: false,
        qos: 1,
        retain: false,
        topic: "in/t".into(),
        pid: Some(11),
        props: vec![Prop::var(P_SUBSCRIPTION_ID, sid)],
        payload: (0..size).map(|i| (i % 253) as u8).collect(),
    };
    sys.apply(Ev::DeliverBytewise(p));
    sys.apply(Ev::Start(OpSpec::Ping));
    sys.apply(Ev::Deliver(SPacket::Pingresp));
    sys.finish();
    if sys.dead {
        for v in &sys.violations {
            println!("TRICKLE-VIOLATION {} {}", v.rule, v.detail);
        }
        return 1;
    }
    println!("TRICKLE-OK");
    0
}
