//! C11 - packet ids are non-zero and unique among outstanding operations, for any history.
//! (single-task part; the multi-thread part is the loom harness, see props/c11 in DESIGN.md)

use super::common::*;
use super::*;
use crate::model::*;
use crate::spec::*;
use crate::sys::*;
use pvcore::refcodec::SPacket;

pub fn check(tier: Tier) -> Check {
    // two Contexts in one process: the identifiers of one are no business of the other. Run first, one
    // execution at a time, and decisive on its own: with state shared between clients the parallel
    // executions of the later parts would influence each other (and show as nondeterminism there).
    let mut parts = vec![
        Part::new("C11/two-clients", json!({"seq": true, "gate": true}), 0, 120),
        Part::new("C11/long", json!({"ops": 70000}), 0, 300),
    ];
    for k in 0..=1u32 {
        parts.push(Part::new(
            "C11/near-wrap",
            json!({"depth": tier.pick(5, 7) - k as usize}),
            k,
            tier.pick(30, 600),
        ));
    }
    // locally refused requests (send quota, Maximum Packet Size) in the history: a refused request has
    // consumed an identifier like any other; with the context task held back, refusals and accepted
    // requests of other callers complete in one go
    for k in 1..=2u32 {
        parts.push(Part::new("C11/near-wrap", json!({"depth": tier.pick(5, 6) - k as usize + 1, "r": 1, "refusals": true}), k, tier.pick(30, 600)));
        parts.push(Part::new("C11/near-wrap", json!({"depth": tier.pick(4, 5) - k as usize + 1, "m": 12, "refusals": true}), k, tier.pick(30, 600)));
    }
    // inbound QoS 1 / 2 messages whose identifiers lie around the client's own outstanding ones
    parts.push(Part::new("C11/near-wrap", json!({"depth": tier.pick(4, 5), "inbound": true}), 0, tier.pick(30, 600)));
    // one long-lived handle used for one operation after the other, and clones taken from it in between
    // (whatever an implementation keeps inside a handle, or copies on clone, must not repeat identifiers)
    parts.push(Part::new("C11/near-wrap", json!({"depth": tier.pick(4, 5), "m": 13, "refusals": true, "worker": true}), 0, tier.pick(30, 600)));
    parts.push(Part::new("C11/near-wrap", json!({"depth": tier.pick(4, 5), "r": 1, "refusals": true, "worker": true}), 1, tier.pick(30, 600)));
    parts.push(Part::new("C11/near-wrap", json!({"depth": tier.pick(4, 6), "worker": true}), 0, tier.pick(30, 600)));
    // one Context, two connections, an operation of the first still outstanding on the second
    for fl in [5u64, 6, 7] {
        parts.push(Part::new("C11/near-wrap", json!({"depth": tier.pick(4, 5), "flavour": fl, "refusals": true}), 0, tier.pick(30, 600)));
    }
    // a future created long before its first poll: by then the counters have gone once round (rewound
    // by the hook here) and another operation holds the values they had at creation time
    parts.push(Part::new("C11/parked", json!({}), 0, 60));
    parts.push(Part::new("C11/hook-validate", json!({}), 0, 120));
    parts.push(Part::new("C11/loom", json!({"thorough": tier == Tier::Thorough}), 0, 600));
    Check {
        also_rel: false,
        property: "C11",
        level: "model_checking",
        rule: "(a) 12 deterministic runs of 70 000 identifier-consuming operations through the real handle/context (QoS 1 only, QoS 2 only, subscribe only, round robin) with 0, 1 or 3 acknowledgements outstanding, and 3 runs in which one QoS 1 publish stays outstanding during 65 530 requests that need no identifier (QoS 0 publishes / pings / both) followed by 12 that do; (b) all sequences of operation starts and acknowledgements up to the stated depth from counters preset (hook) to 65533/65534/65535 and subscription identifiers preset to 1/127/268435454; (b') the same with Receive Maximum 1 or Maximum Packet Size 12 in force, so that locally refused requests sit between the accepted ones, the context task held back and released (deviations); (b'') the same with the operations issued on one long-lived handle (one after the other) and on clones taken from it in between; (b''') an operation whose future is created, left unpolled while the counters go once round (rewound by the hook) and another operation takes the same values, and polled then; (c) differential validation of the hook against an honest run to the same point; (d) loom: all interleavings (unbounded; 3x2 with preemption bound 3 in thorough) of 2 threads x 2 and 3 threads x 1 first polls of publish QoS 1/2, subscribe, unsubscribe on real handle clones at the two library atomics, started at counters 1 and next to the wrap, drained through the real Context and decoded; oracle: every identifier on the wire is non-zero (strict decoder), differs from every outstanding one, subscription identifiers are never reused, no panic; one publish outstanding during 65 530 requests that need no identifier followed by twelve that do; inbound QoS 1/2 messages with identifiers around the wrap in the near-wrap alphabet; non-trivial = the packet identifier counter wrapped".into(),
        assumptions: vec![
            "fewer than 65535 identifiers are allocated while any operation is outstanding (premise of the property)".into(),
            "loom explores interleavings at the two library atomics only; futures-channel (std atomics) is in the trusted base".into(),
        ],
        parts,
    }
}

fn finish_op(sys: &mut Sys, op: usize) {
    loop {
        match sys.ack_for(op, 0, "") {
            Some(p) => sys.apply(Ev::Deliver(p)),
            None => break,
        }
        if sys.dead {
            return;
        }
    }
}

fn long(name: String, params: Value) -> Scenario {
    Box::new(move |chz, ex| {
        let n = params["ops"].as_u64().unwrap() as usize;
        let window = [0usize, 1, 3][chz.choose(3)];
        let pattern = chz.choose(5);
        let mut sys = Sys::new("C11", &name, chz);
        sys.params = params.clone();
        sys.m.check_client_acks = false;
        sys.bring_up(vec![]);
        if pattern == 4 {
            // One QoS 1 publish stays outstanding while 70 000 requests that need NO identifier (QoS 0
            // publishes - more than 65535 of them -, pings) and a few dozen that do go by: far fewer than 65535 identifiers are
            // allocated meanwhile, so nobody may be given the outstanding one.
            sys.apply(Ev::Start(OpSpec::Publish(PublishSpec::simple(1, "t/anchor", b"held open"))));
            let anchor = sys.m.ops.len() - 1;
            // 65 530 requests that need no identifier (window 0: QoS 0 publishes, 1: pings, 3: both in
            // turn), then twelve that do - wherever an implementation that wrongly drew an identifier
            // for the former would have come round to the anchor's, one of the twelve gets it
            for i in 0..65_530usize {
                if sys.dead {
                    break;
                }
                let ping = match window {
                    0 => false,
                    1 => true,
                    _ => i % 2 == 0,
                };
                if ping {
                    sys.apply(Ev::Start(OpSpec::Ping));
                    sys.apply(Ev::Deliver(SPacket::Pingresp));
                } else {
                    sys.apply(Ev::Start(OpSpec::Publish(PublishSpec::simple(0, "t/0", b"no identifier"))));
                }
            }
            for i in 0..12usize {
                if sys.dead {
                    break;
                }
                let spec = match i % 4 {
                    0 => OpSpec::Publish(PublishSpec::simple(1, "t", b"a")),
                    1 => OpSpec::Publish(PublishSpec::simple(2, "t", b"b")),
                    2 => OpSpec::Subscribe(SubscribeSpec::simple("s")),
                    _ => OpSpec::Unsubscribe(UnsubscribeSpec::simple("s")),
                };
                sys.apply(Ev::Start(spec));
                let op = sys.m.ops.len() - 1;
                finish_op(&mut sys, op);
            }
            if !sys.dead {
                finish_op(&mut sys, anchor);
            }
            sys.finish();
            if !sys.dead {
                sys.m.hits.push("pid-wrapped");
            }
            sys.events = vec![format!("one QoS 1 publish outstanding during 65530 requests that need no identifier (window choice {}) and 12 that do", window)];
            return sys.report(ex, &["pid-wrapped"]);
        }
        let specs = [
            OpSpec::Publish(PublishSpec::simple(1, "t", b"a")),
            OpSpec::Publish(PublishSpec::simple(2, "t", b"b")),
            OpSpec::Subscribe(SubscribeSpec::simple("s")),
            OpSpec::Unsubscribe(UnsubscribeSpec::simple("s")),
        ];
        let mut pending: std::collections::VecDeque<usize> = Default::default();
        for i in 0..n {
            if sys.dead {
                break;
            }
            let spec = match pattern {
                0 => specs[0].clone(),
                1 => specs[1].clone(),
                2 => specs[2].clone(),
                _ => specs[i % 4].clone(),
            };
            sys.apply(Ev::Start(spec));
            pending.push_back(sys.m.ops.len() - 1);
            while pending.len() > window {
                let op = pending.pop_front().unwrap();
                finish_op(&mut sys, op);
                if matches!(sys.m.ops[op].spec, OpSpec::Subscribe(_)) && !sys.dead {
                    sys.apply(Ev::DropRsp(op));
                }
            }
        }
        while let Some(op) = pending.pop_front() {
            if sys.dead {
                break;
            }
            finish_op(&mut sys, op);
        }
        sys.finish();
        if !sys.dead {
            sys.m.hits.push("pid-wrapped");
        }
        sys.events = vec![format!("{} operations, pattern {}, window {}", n, pattern, window)];
        sys.report(ex, &["pid-wrapped"]);
    })
}

fn observe8(sys: &mut Sys) {
    // eight more identifier-consuming operations, two outstanding
    let seq = [1u8, 2, 3, 1, 4, 2, 3, 1];
    let mut prev: Option<usize> = None;
    for k in seq {
        let spec = match k {
            1 => OpSpec::Publish(PublishSpec::simple(1, "t", b"a")),
            2 => OpSpec::Publish(PublishSpec::simple(2, "t", b"b")),
            3 => OpSpec::Subscribe(SubscribeSpec::simple("s")),
            _ => OpSpec::Unsubscribe(UnsubscribeSpec::simple("s")),
        };
        sys.apply(Ev::Start(spec));
        let cur = sys.m.ops.len() - 1;
        if let Some(p) = prev {
            finish_op(sys, p);
        }
        prev = Some(cur);
        if sys.dead {
            return;
        }
    }
}

fn hook_validate(name: String, params: Value) -> Scenario {
    Box::new(move |chz, ex| {
        // honest: 65532 QoS 1 publishes (window 0), then the 8 observations
        let mut a = Sys::new("C11", &name, chz);
        a.params = params.clone();
        a.m.check_client_acks = false;
        a.bring_up(vec![]);
        for _ in 0..65532 {
            a.apply(Ev::Start(OpSpec::Publish(PublishSpec::simple(1, "t", b"a"))));
            let op = a.m.ops.len() - 1;
            finish_op(&mut a, op);
            if a.dead {
                break;
            }
        }
        let mark_a = a.w.log_len();
        observe8(&mut a);
        let tail_a: Vec<String> = a.w.obs_since(mark_a).iter().map(|o| match o {
            crate::world::Ob::Wire(p) => format!("{:?}", p.pid()),
            _ => String::new(),
        }).filter(|s| !s.is_empty()).collect();
        // hooked: counters preset to where the honest run is
        let mut b = Sys::new("C11", &name, chz);
        b.m.check_client_acks = false;
        b.bring_up(vec![]);
        b.w.handle().verif_set_ids(65533, 1);
        let mark_b = b.w.log_len();
        observe8(&mut b);
        let tail_b: Vec<String> = b.w.obs_since(mark_b).iter().map(|o| match o {
            crate::world::Ob::Wire(p) => format!("{:?}", p.pid()),
            _ => String::new(),
        }).filter(|s| !s.is_empty()).collect();
        // The hook presets COUNTERS. An implementation that allocates differently (the lowest free
        // identifier, say) keeps the hook as a hint where to start; the two runs then show different
        // identifiers - both runs are still judged by the model (non-zero, unique among outstanding),
        // only the differential validation of the hook has nothing to say for such an implementation.
        if !a.dead && !b.dead && tail_a != tail_b {
            a.m.hits.push("hook-differs-from-honest-run");
            if std::env::var("PV_SHOW_NOTES").is_ok() {
                eprintln!("note: verif_set_ids does not reproduce the honest run: {:?} vs {:?}", tail_a, tail_b);
            }
        }
        let mut v = std::mem::take(&mut b.violations);
        a.violations.append(&mut v);
        a.m.hits.push("pid-wrapped");
        a.events = vec![format!("65532 publishes then 8 operations: packet ids {:?}", tail_a)];
        a.report(ex, &["pid-wrapped"]);
    })
}

fn parked(name: String, params: Value) -> Scenario {
    Box::new(move |chz, ex| {
        let specs = [
            OpSpec::Publish(PublishSpec::simple(1, "t/a", b"one")),
            OpSpec::Publish(PublishSpec::simple(2, "t/b", b"two")),
            OpSpec::Subscribe(SubscribeSpec::simple("s/a")),
            OpSpec::Unsubscribe(UnsubscribeSpec::simple("s/a")),
        ];
        let first = specs[chz.choose(4)].clone();
        let second = specs[chz.choose(4)].clone();
        let (pid0, sub0) = [(100u16, 5u32), (65535, 127), (255, 268_435_455)][chz.choose(3)];
        let mut sys = Sys::new("C11", &name, chz);
        sys.params = params.clone();
        sys.m.check_client_acks = false;
        sys.bring_up(vec![]);
        sys.w.handle().verif_set_ids(pid0, sub0);
        sys.events.push(format!("PresetCounters(packet_id={}, sub_id={})", pid0, sub0));
        // created now, polled later
        sys.apply(Ev::StartHeld(first));
        // "65535 operations later": the packet identifier counter stands where it stood. The
        // subscription identifier counter does not: its space is 268 435 455 wide, a lap of packet
        // identifiers moves it on by at most 65535 - rewinding it to a value that may already have
        // been handed out (an implementation may draw it when subscribe() is called) would make the
        // harness, not the library, assign it twice.
        let sub1 = if sub0 > 200_000_000 { 40 } else { sub0 + 300 };
        sys.w.handle().verif_set_ids(pid0, sub1);
        sys.events.push(format!("PresetCounters(packet_id={}, sub_id={})  [one lap later]", pid0, sub1));
        sys.apply(Ev::Start(second));
        sys.apply(Ev::Release(crate::world::Tid::Op(0)));
        sys.apply(Ev::Start(OpSpec::Subscribe(SubscribeSpec::simple("s/b"))));
        sys.finish();
        sys.m.hits.push("pid-wrapped");
        sys.report(ex, &["pid-wrapped"]);
    })
}

/// Two clients (two Contexts) in one process: client A keeps one operation outstanding while client B
/// goes once round its identifiers; A's next operations still get identifiers A does not hold.
fn two_clients(name: String, params: Value) -> Scenario {
    Box::new(move |chz, ex| {
        let kind = chz.choose(3);
        let mut a = Sys::new("C11", &name, chz);
        a.params = params.clone();
        a.m.check_client_acks = false;
        a.bring_up(vec![]);
        let first = match kind {
            0 => OpSpec::Publish(PublishSpec::simple(1, "t/a", b"held")),
            1 => OpSpec::Publish(PublishSpec::simple(2, "t/a", b"held")),
            _ => OpSpec::Subscribe(SubscribeSpec::simple("s/a")),
        };
        a.apply(Ev::Start(first));
        let mut b = Sys::new("C11", &name, chz);
        b.m.check_client_acks = false;
        b.bring_up(vec![]);
        for _ in 0..65_534usize {
            if b.dead {
                break;
            }
            b.apply(Ev::Start(OpSpec::Publish(PublishSpec::simple(1, "t/b", b"x"))));
            let op = b.m.ops.len() - 1;
            finish_op(&mut b, op);
        }
        for i in 0..4usize {
            let spec = match i % 2 {
                0 => OpSpec::Publish(PublishSpec::simple(1, "t/a", b"next")),
                _ => OpSpec::Subscribe(SubscribeSpec::simple("s/next")),
            };
            a.apply(Ev::Start(spec));
        }
        a.finish();
        b.finish();
        let mut v = std::mem::take(&mut b.violations);
        a.violations.append(&mut v);
        a.m.hits.push("pid-wrapped");
        a.events = vec![format!("client A holds one operation (kind {}), client B allocates 65 534 identifiers, A starts four more", kind)];
        a.report(ex, &["pid-wrapped"]);
    })
}

pub fn scenario(name: &str, params: &Value) -> Scenario {
    if name == "C11/two-clients" {
        return two_clients(name.to_string(), params.clone());
    }
    if name == "C11/parked" {
        return parked(name.to_string(), params.clone());
    }
    match name {
        "C11/loom" => return loom_part(name.to_string(), params.clone()),
        "C11/long" => return long(name.to_string(), params.clone()),
        "C11/hook-validate" => return hook_validate(name.to_string(), params.clone()),
        _ => {}
    }
    let depth = params["depth"].as_u64().unwrap_or(5) as usize;
    let params = params.clone();
    let name = name.to_string();
    Box::new(move |chz, ex| {
        let mut sys = Sys::new("C11", &name, chz);
        sys.params = params.clone();
        sys.m.check_client_acks = false;
        let mut cprops = params["r"].as_u64().map(|r| receive_max(r as u16)).unwrap_or_default();
        if let Some(m) = params["m"].as_u64() {
            cprops.push(pvcore::refcodec::Prop::u32(pvcore::refcodec::P_MAXIMUM_PACKET_SIZE, m as u32));
        }
        sys.bring_up_fl(cprops, params["flavour"].as_u64().unwrap_or(0));
        let refusals = params["refusals"].as_bool().unwrap_or(false);
        let flavoured = params["flavour"].as_u64().is_some();
        let pid0 = if flavoured { 0 } else if refusals { [1u16, 65534][chz.choose(2)] } else { [65533u16, 65534, 65535][chz.choose(3)] };
        let sub0 = if refusals { 1 } else { [1u32, 127, 268_435_454][chz.choose(3)] };
        if !flavoured {
            // (on a second connection the counters are left where the first connection took them)
            sys.events.push(format!("PresetCounters(packet_id={}, sub_id={})", pid0, sub0));
            sys.w.handle().verif_set_ids(pid0, sub0);
        }
        let specs = vec![
            OpSpec::Publish(PublishSpec::simple(1, "t/a", b"one")),
            OpSpec::Publish(PublishSpec::simple(2, "t/b", b"two")),
            OpSpec::Subscribe(SubscribeSpec::simple("s/a")),
            OpSpec::Unsubscribe(UnsubscribeSpec::simple("s/a")),
        ];
        let mut specs = specs;
        if params["m"].as_u64() == Some(13) {
            // (13 bytes is what the short requests above take: they fit, these do not)
            specs.push(OpSpec::Subscribe(SubscribeSpec::simple("s/too-long-for-the-limit")));
            specs.push(OpSpec::Publish(PublishSpec::simple(1, "t/a", b"too long for the limit")));
        }
        let devs = |s: &Sys| sched_deviations(s, true, false);
        let evs = |s: &Sys| {
            let mut e = start_events(s, &specs, 4, 3);
            e.extend(broker_acks(s, false, false));
            if s.params["inbound"].as_bool().unwrap_or(false) {
                // the broker's own QoS 1 / QoS 2 messages use the same 16-bit values in a namespace of
                // their own: whatever identifiers arrive, the client's allocation is not their business
                let n = s.transitions;
                for pid in [65532u16, 65533, 65534, 65535, 1, 2] {
                    e.push(Ev::Deliver(inbound(2, false, pid, &[], &format!("in{}", n))));
                }
                e.push(Ev::Deliver(inbound(1, false, 65534, &[], &format!("in{}", n))));
            }
            e
        };
        drive(&mut sys, chz, depth, &devs, &evs);
        // the wrap happened if some packet id <= 8 was assigned
        if sys.m.ops.iter().any(|o| matches!(o.pid, Some(p) if p < 100)) {
            sys.m.hits.push("pid-wrapped");
        }
        let _ = SPacket::Pingresp;
        sys.report(ex, &["pid-wrapped"]);
    })
}

/// E4: the loom harness is a separate binary (built with --cfg poster_verif_loom); its schedules are
/// counted as transitions of this part.
fn loom_part(name: String, params: Value) -> Scenario {
    Box::new(move |chz, ex| {
        let mut sys = Sys::new("C11", &name, chz);
        sys.params = params.clone();
        let bin = match std::env::var("PV_LOOM_BIN") {
            Ok(b) => b,
            Err(_) => {
                eprintln!("MACHINERY: PV_LOOM_BIN is not set (run through ./check)");
                std::process::exit(2);
            }
        };
        let mut cmd = std::process::Command::new(&bin);
        if params["thorough"].as_bool().unwrap_or(false) {
            cmd.arg("thorough");
        }
        let out = match cmd.output() {
            Ok(o) => o,
            Err(e) => {
                eprintln!("MACHINERY: cannot run {}: {}", bin, e);
                std::process::exit(2);
            }
        };
        let text = String::from_utf8_lossy(&out.stdout).to_string();
        let ok = text.lines().find(|l| l.starts_with("LOOM-OK"));
        let bad = text.lines().find(|l| l.starts_with("LOOM-VIOLATION"));
        sys.events.push(format!("loom: {}", ok.or(bad).unwrap_or("(no verdict)")));
        if let Some(l) = ok {
            let n: u64 = l
                .split_whitespace()
                .find_map(|w| w.strip_prefix("schedules=").and_then(|v| v.parse().ok()))
                .unwrap_or(0);
            sys.transitions = n;
            sys.m.hits.push("pid-wrapped");
        } else if let Some(l) = bad {
            sys.classes.push("LoomInterleaving".into());
            sys.violations.push(pvcore::explore::Violation {
                property: "C11".into(),
                rule: "C11/loom".into(),
                witness: l.split(':').next().unwrap_or(l).chars().take(80).collect(),
                detail: format!("{}\n stderr tail: {}", l, String::from_utf8_lossy(&out.stderr).chars().rev().take(600).collect::<String>().chars().rev().collect::<String>()),
                replay: json!({"scenario": name, "params": params, "choices": [], "how": "run /verif/.build/target-loom/release/pvloom; loom prints the failing schedule"}),
            });
        } else {
            eprintln!("MACHINERY: loom harness gave no verdict (exit {:?}): {}", out.status, String::from_utf8_lossy(&out.stderr));
            std::process::exit(2);
        }
        sys.report(ex, &["pid-wrapped"]);
    })
}
