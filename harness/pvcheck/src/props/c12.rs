//! C12 - the server's Maximum Packet Size is honoured exactly.

use super::common::*;
use super::*;
use crate::model::*;
use crate::spec::*;
use crate::sys::*;
use pvcore::refcodec::*;

pub fn check(tier: Tier) -> Check {
    let parts = vec![
        Part::new("C12/sweep", json!({"max_payload": tier.pick(48, 96)}), 0, tier.pick(45, 600)),
        // the limit in force is the one announced (or not) by the CONNACK of the *current* connection
        Part::new("C12/reconnect", json!({}), 0, tier.pick(45, 300)),
        // requests made before the connection that carries them exists
        Part::new("C12/early", json!({}), 0, 60),
        // a Context that recorded a disconnection (hook H1): the new connection's limit binds the requests
        // made on it - after an expired session as well as after a resumed one (15-byte publish, M = 14 / 15)
        Part::new("C12/resumed", json!({"depth": 3, "expiry": 0, "secs_ago": 10, "m2": 14}), 0, 60),
        Part::new("C12/resumed", json!({"depth": 3, "expiry": 1000, "secs_ago": 100000, "m2": 14}), 0, 60),
        Part::new("C12/resumed", json!({"depth": 3, "expiry": 1000, "secs_ago": 10, "m2": 14}), 0, 60),
        Part::new("C12/resumed", json!({"depth": 2, "expiry": 0, "secs_ago": 10, "m2": 15}), 0, 60),
        // the largest packet there is (268 435 460 bytes) against limits around 2^28 (run one at a time)
        Part::new("C12/giant", json!({"seq": true, "full": tier == Tier::Thorough}), 0, 300),
    ];
    Check {
        also_rel: false,
        property: "C12",
        level: "exploration",
        rule: "all request kinds (publish QoS 0/1/2 with payload 0..max, 112..128 and 16368..16384 bytes - packet lengths on both sides of the one-/two-/three-byte remaining-length steps - and topic 1..3 bytes, subscribe / unsubscribe with 1-2 filters and 0-1 user property, ping, disconnect with / without reason string) x M in {L-1, L, L+1, 1, 2^32-1, absent} x Receive Maximum in {1, absent} x CONNACK {bare, carrying six other properties around them} x connection flavour {bare, every CONNECT option set incl. the client's own Maximum Packet Size 16 and Session Present = 1, a CONNACK received through authorize()}, L computed by the reference encoder; issued on an idle client, with a ping, a subscribe and an unsubscribe of other callers outstanding (their acknowledgements must still reach them), and with another caller's QoS 1 publish unacknowledged (its send-quota slot is neither taken nor given back by a refused request: with Receive Maximum 1 the next QoS 1 publish is refused for the quota until the PUBACK arrives); followed by a QoS 1 publish, its PUBACK, an accepted subscribe, and an inbound PUBLISH naming the rejected subscription's would-be identifier; (C12/reconnect) one Context connected twice (end-of-stream, set_up on a fresh transport, connect, run): first CONNACK with M1, second with M2, each in {absent, 16, 45, 46, 47, 200}, requests of 46 bytes and of other sizes on both connections - the limit in force is the current connection's; (C12/early) a request (publish QoS 0/1/2, unsubscribe, ping, disconnect) made before connect(), or between two connections whose CONNACKs state opposite limits, M in {L-1, L, absent}: it is measured against the limit of the connection that carries it; the length L of a SUBSCRIBE depends on the subscription identifier the library will choose, so L is learned from a probe execution of the same history without M (identifier allocation is deterministic in the history) instead of assuming the identifiers count up from 1; with another caller's QoS 1 publish holding the only quota slot; on a connection re-authenticated after its CONNACK (flavour 10); (C12/giant) the largest packet there is, 268 435 460 bytes, against M = 268 435 455 / 268 435 459 / 268 435 460 (thorough: seven limits, QoS 0 and 1), one execution at a time; non-trivial = a request was refused for size".into(),
        assumptions: vec![],
        parts,
    }
}

/// A request issued BEFORE the connection that will carry it exists - before the first connect(), or
/// between two connections of one Context - is measured against the limit of that connection (the one
/// its CONNACK announces), not against whatever was known when the request was made.
fn early(name: String, params: Value) -> Scenario {
    Box::new(move |chz, ex| {
        let kind = chz.choose(6);
        let spec = match kind {
            0 | 1 | 2 => OpSpec::Publish(PublishSpec::simple(kind as u8, "t/early", &[b'e'; 20])),
            3 => OpSpec::Unsubscribe(UnsubscribeSpec::simple("filter/early")),
            4 => OpSpec::Ping,
            _ => OpSpec::Disconnect(DisconnectSpec {
                reason: Some(0x04),
                reason_string: Some("early".into()),
                ..Default::default()
            }),
        };
        let l = {
            let mut m = Model::new();
            let i = m.start(spec.clone());
            m.request_len(i, false) as u32
        };
        let between = chz.choose(2) == 1;
        let m2 = [Some(l - 1), Some(l), None][chz.choose(3)];
        let mut sys = Sys::new("C12", &name, chz);
        sys.params = params.clone();
        sys.m.check_client_acks = false;
        let mp = |m: Option<u32>| m.map(|v| vec![Prop::u32(P_MAXIMUM_PACKET_SIZE, v)]).unwrap_or_default();
        if between {
            // the first connection said the opposite
            let m1 = if m2 == Some(l - 1) { None } else { Some(l - 1) };
            sys.auto_exit = false;
            sys.bring_up(mp(m1));
            if !sys.dead {
                sys.apply(Ev::Eof);
            }
            if sys.dead {
                return sys.report(ex, &[]);
            }
            sys.events.push(format!("(first connection M={:?}; the request is made now; second connection M={:?})", m1, m2));
            sys.w.new_wire();
            sys.m.new_wire();
        }
        sys.apply(Ev::Start(spec));
        if sys.dead {
            return sys.report(ex, &[]);
        }
        sys.connect_with(
            ConnectSpec::default(),
            SPacket::Connack { session_present: false, reason: 0, props: mp(m2) },
        );
        if !sys.dead {
            sys.start_run();
        }
        if !sys.dead && sys.m.ctx == CtxSt::Running {
            let o = sys.m.ops.len() - 1;
            for _ in 0..2 {
                if let Some(a) = sys.ack_for(o, 0, "") {
                    sys.apply(Ev::Deliver(a));
                }
            }
            if !sys.m.pings.is_empty() {
                sys.apply(Ev::Deliver(SPacket::Pingresp));
            }
            sys.apply(Ev::Start(OpSpec::Publish(PublishSpec::simple(1, "f", b""))));
        }
        sys.finish();
        sys.m.hits.push("second-connection");
        sys.report(ex, &["max-packet-size-refusal", "second-connection"]);
    })
}

fn reconnect(name: String, params: Value) -> Scenario {
    Box::new(move |chz, ex| {
        let ms: [Option<u32>; 6] = [None, Some(16), Some(45), Some(46), Some(47), Some(200)];
        let m1 = ms[chz.choose(ms.len())];
        let m2 = ms[chz.choose(ms.len())];
        let traffic1 = chz.choose(3);
        let kind = chz.choose(4);
        // traffic1 == 2: a QoS 2 publish is left awaiting its PUBREC when the first connection ends;
        // the PUBREC arrives on the second connection, whose limit then applies to the PUBREL
        // (4 bytes in its short form): M2 in {3, 4, 6, ...}
        let m2 = if traffic1 == 2 { [None, Some(3), Some(4), Some(6), Some(16)][chz.choose(5)] } else { m2 };
        let m1 = if traffic1 == 2 { [None, Some(200)][chz.choose(2)] } else { m1 };
        let mut sys = Sys::new("C12", &name, chz);
        sys.params = params.clone();
        sys.m.check_client_acks = false;
        sys.auto_exit = false;
        let mp = |m: Option<u32>| m.map(|v| vec![Prop::u32(P_MAXIMUM_PACKET_SIZE, v)]).unwrap_or_default();
        // 46 bytes: 1 + 1 + (2 + 1) + 2 (packet id) + 1 (property length) + 38
        let p46 = |q: u8| OpSpec::Publish(PublishSpec::simple(q, "t", &[b'y'; 38]));
        sys.bring_up(mp(m1));
        if traffic1 == 1 && !sys.dead {
            sys.apply(Ev::Start(p46(1)));
            if let Some(a) = sys.ack_for(0, 0, "") {
                sys.apply(Ev::Deliver(a));
            }
        }
        if traffic1 == 2 && !sys.dead {
            sys.apply(Ev::Start(OpSpec::Publish(PublishSpec::simple(2, "t", &[b'q'; 8]))));
        }
        if !sys.dead {
            sys.apply(Ev::Eof);
        }
        if !sys.dead {
            sys.events.push(format!("Reconnect (M1={:?} M2={:?})", m1, m2));
            sys.classes.push("Reconnect".into());
            sys.w.new_wire();
            sys.m.new_wire();
            sys.connect_with(
                ConnectSpec::default(),
                SPacket::Connack {
                    session_present: false,
                    reason: 0,
                    props: mp(m2),
                },
            );
        }
        if !sys.dead {
            sys.start_run();
        }
        if traffic1 == 2 && !sys.dead {
            for _ in 0..2 {
                if let Some(a) = sys.ack_for(0, 0, "") {
                    sys.apply(Ev::Deliver(a));
                }
            }
        }
        if !sys.dead {
            let spec = match kind {
                0 => p46(0),
                1 => p46(1),
                2 => OpSpec::Publish(PublishSpec::simple(2, "t", &[b'z'; 8])), // 16 bytes
                _ => OpSpec::Unsubscribe(UnsubscribeSpec::simple(&"f".repeat(39))), // 46 bytes
            };
            sys.apply(Ev::Start(spec));
            let o = sys.m.ops.len() - 1;
            for _ in 0..2 {
                if let Some(a) = sys.ack_for(o, 0, "") {
                    sys.apply(Ev::Deliver(a));
                }
            }
            sys.apply(Ev::Start(OpSpec::Ping));
            if !sys.dead && !sys.m.pings.is_empty() {
                sys.apply(Ev::Deliver(SPacket::Pingresp));
            }
        }
        sys.finish();
        sys.m.hits.push("second-connection");
        sys.report(ex, &["second-connection"]);
    })
}

/// The other end of the size range: the largest packet MQTT 5 can carry (Remaining Length 268 435 455,
/// 268 435 460 bytes in all) against limits around it. A limit is a limit whatever its magnitude: M =
/// 268 435 455 .. 268 435 459 still refuses this packet, M = 268 435 460 and "no M" let it through.
fn giant(name: String, params: Value) -> Scenario {
    Box::new(move |chz, ex| {
        let ms: [Option<u32>; 7] = [
            Some(268_435_454),
            Some(268_435_455),
            Some(268_435_457),
            Some(268_435_459),
            Some(268_435_460),
            Some(u32::MAX),
            None,
        ];
        // (quick: the two ends of the critical range and one limit that lets the packet through)
        let pick: Vec<usize> = if params["full"].as_bool().unwrap_or(false) { (0..ms.len()).collect() } else { vec![1, 3, 4] };
        let mi = pick[chz.choose(pick.len())];
        let m = ms[mi];
        // (the cases in which 256 MiB really travel are run with QoS 0 only)
        let q = if mi >= 4 { 0 } else { chz.choose(2) as u8 };
        let mut sys = Sys::new("C12", &name, chz);
        sys.params = params.clone();
        sys.m.check_client_acks = false;
        let mut props = vec![Prop::u16(P_RECEIVE_MAXIMUM, 1)];
        if let Some(m) = m {
            props.push(Prop::u32(P_MAXIMUM_PACKET_SIZE, m));
        }
        sys.bring_up(props);
        // remaining length = 2 + 1 (topic) [+ 2 (packet id)] + 1 (property length) + payload
        let plen = 268_435_455usize - 4 - if q > 0 { 2 } else { 0 };
        let spec = OpSpec::Publish(PublishSpec::simple(q, "t", &vec![0x47u8; plen]));
        let l = {
            let i = sys.m.start(spec.clone());
            let l = sys.m.request_len(i, false);
            // (only used to measure; the real operation is started below)
            sys.m.ops.pop();
            sys.m.wake.remove(&i);
            sys.m.live_handles -= 1;
            l
        };
        assert_eq!(l, 268_435_460, "harness: the giant packet has the wrong size");
        sys.events.push(format!("L={} M={:?}", l, m));
        sys.apply(Ev::Start(spec));
        // the quota slot is untouched by a refusal: a small QoS 1 publish goes out (Receive Maximum 1)
        if q == 0 || m.map(|m| (m as usize) < l).unwrap_or(false) {
            sys.apply(Ev::Start(OpSpec::Publish(PublishSpec::simple(1, "f", b""))));
            let fo = sys.m.ops.len() - 1;
            if !sys.dead {
                if let Some(p) = sys.ack_for(fo, 0, "") {
                    sys.apply(Ev::Deliver(p));
                }
            }
        }
        sys.finish();
        sys.events.truncate(8);
        sys.report(ex, &["max-packet-size-refusal", "qos0-written"]);
    })
}

pub fn scenario(name: &str, params: &Value) -> Scenario {
    if name == "C12/resumed" {
        return super::c17::scenario_for("C12", name, params);
    }
    if name == "C12/giant" {
        return giant(name.to_string(), params.clone());
    }
    if name == "C12/early" {
        return early(name.to_string(), params.clone());
    }
    if name == "C12/reconnect" {
        return reconnect(name.to_string(), params.clone());
    }
    let maxp = params["max_payload"].as_u64().unwrap_or(24) as usize;
    let params = params.clone();
    let name = name.to_string();
    Box::new(move |chz, ex| {
        let mut sys = Sys::new("C12", &name, chz);
        sys.params = params.clone();
        sys.m.check_client_acks = false;
        // the request
        let kind = chz.choose(8);
        let spec = match kind {
            0 | 1 | 2 => {
                // payload lengths 0..=max, and those that carry the packet across the points where
                // the remaining-length field grows (L around 128 / 129 / 130 and 16384 .. 16387)
                let mut plens: Vec<usize> = (0..=maxp).collect();
                plens.extend(112..=128);
                plens.extend(16368..=16384);
                let plen = plens[chz.choose(plens.len())];
                let tlen = 1 + chz.choose(3);
                OpSpec::Publish(PublishSpec::simple(
                    kind as u8,
                    &"tpc"[..tlen],
                    &vec![b'x'; plen],
                ))
            }
            3 => {
                let n = 1 + chz.choose(2);
                let up = chz.choose(2);
                OpSpec::Subscribe(SubscribeSpec {
                    filters: (0..n).map(|i| FilterSpec::plain(&"filter/ab"[..6 + i])).collect(),
                    user_props: (0..up).map(|_| ("k".to_string(), "v".to_string())).collect(),
                })
            }
            4 => {
                let n = 1 + chz.choose(2);
                let up = chz.choose(2);
                OpSpec::Unsubscribe(UnsubscribeSpec {
                    filters: (0..n).map(|i| "filter/ab"[..6 + i].to_string()).collect(),
                    user_props: (0..up).map(|_| ("k".to_string(), "v".to_string())).collect(),
                })
            }
            5 => OpSpec::Ping,
            6 => OpSpec::Disconnect(DisconnectSpec::default()),
            _ => OpSpec::Disconnect(DisconnectSpec {
                reason: Some(0x04),
                reason_string: Some("going away".into()),
                ..Default::default()
            }),
        };
        let r1 = chz.choose(2) == 1;
        // (3 -> 10: re-authentication between the CONNACK and run())
        let flavour = [0u64, 1, 2, 10][chz.choose(4)];
        // 0 = idle client; 1 = a ping, a subscribe and an unsubscribe of other callers outstanding;
        // 2 = a QoS 1 publish of another caller unacknowledged (it holds a send-quota slot, which a
        //     refused request of whatever kind must neither take nor give back)
        let busy_mode = chz.choose(3);
        let busy = busy_mode == 1;
        // Its length by the reference encoder. A SUBSCRIBE carries the subscription identifier the
        // library chooses, whose encoding is 1-4 bytes long: learn it from a probe execution of the
        // same history without any limit (allocation is a deterministic function of the history).
        let mut learned_sub = None;
        if kind == 3 {
            let mut ps = Sys::new("C12", &name, chz);
            ps.params = params.clone();
            ps.m.check_client_acks = false;
            ps.bring_up_fl(if r1 { vec![Prop::u16(P_RECEIVE_MAXIMUM, 1)] } else { vec![] }, flavour);
            if busy {
                ps.apply(Ev::Start(OpSpec::Ping));
                ps.apply(Ev::Start(OpSpec::Subscribe(SubscribeSpec::simple("b"))));
                ps.apply(Ev::Start(OpSpec::Unsubscribe(UnsubscribeSpec::simple("b"))));
            }
            if busy_mode == 2 {
                ps.apply(Ev::Start(OpSpec::Publish(PublishSpec::simple(1, "o", b""))));
            }
            ps.apply(Ev::Start(spec.clone()));
            if ps.dead {
                return ps.report(ex, &[]);
            }
            let o = ps.m.ops.len() - 1;
            learned_sub = ps.m.ops[o].sub.and_then(|sb| ps.m.subs[sb].sub_id);
            if learned_sub.is_none() {
                panic!("harness: the probe run did not see the SUBSCRIBE");
            }
        }
        let probe = {
            let mut m = Model::new();
            if let Some(id) = learned_sub {
                m.next_sub_guess = id;
            }
            let i = m.start(spec.clone());
            m.request_len(i, false)
        };
        let l = probe as u64;
        let mchoice = chz.choose(6);
        let m: Option<u32> = match mchoice {
            0 => Some((l - 1) as u32),
            1 => Some(l as u32),
            2 => Some((l + 1) as u32),
            3 => Some(1),
            4 => Some(u32::MAX),
            _ => None,
        };
        // (the flavoured connection already carries these properties; a property must not repeat)
        let rich = flavour == 0 && chz.choose(2) == 1;
        let mut props = vec![];
        if rich {
            // M must be picked up whatever else the CONNACK carries, before and after it
            props.push(Prop::u32(P_SESSION_EXPIRY, 30));
            props.push(Prop::u16(P_TOPIC_ALIAS_MAXIMUM, 4));
            props.push(Prop::str(P_ASSIGNED_CLIENT_ID, "cid"));
        }
        if let Some(m) = m {
            props.push(Prop::u32(P_MAXIMUM_PACKET_SIZE, m));
        }
        if r1 {
            props.push(Prop::u16(P_RECEIVE_MAXIMUM, 1));
        }
        if rich {
            props.push(Prop::u16(P_SERVER_KEEP_ALIVE, 9));
            props.push(Prop::user("k", "v"));
            props.push(Prop::byte(P_RETAIN_AVAILABLE, 0));
        }
        // the client's OWN maximum packet size / receive maximum (CONNECT) and Session Present must not matter
        sys.bring_up_fl(props, flavour);
        sys.events.push(format!("L={} M={:?} R1={}", l, m, r1));
        // other callers' requests are outstanding while the request under test is handled
        let mut first = 0usize;
        if busy {
            sys.apply(Ev::Start(OpSpec::Ping));
            sys.apply(Ev::Start(OpSpec::Subscribe(SubscribeSpec::simple("b"))));
            sys.apply(Ev::Start(OpSpec::Unsubscribe(UnsubscribeSpec::simple("b"))));
            first = 3;
            if sys.dead {
                return sys.report(ex, &[]);
            }
        }
        if busy_mode == 2 {
            sys.apply(Ev::Start(OpSpec::Publish(PublishSpec::simple(1, "o", b""))));
            first = 1;
            if sys.dead {
                return sys.report(ex, &[]);
            }
        }
        if kind == 3 {
            // (the probe above told which subscription identifier this call will get)
            sys.m.next_sub_guess = learned_sub.expect("harness: probe");
            sys.m.sub_len_exact = true;
        }
        let hits_before = sys.m.hits.contains(&"max-packet-size-refusal");
        sys.apply(Ev::Start(spec.clone()));
        // (the model decides; for packets with alternative legal forms it follows the implementation
        // inside the window of possible lengths)
        let refused = !hits_before && sys.m.hits.contains(&"max-packet-size-refusal");
        let rejected_sub_id = if refused && kind == 3 {
            Some(sys.m.next_sub_guess)
        } else {
            None
        };
        if sys.m.ctx == CtxSt::Running {
            // complete the request if it went out
            for _ in 0..2 {
                if let Some(p) = sys.ack_for(first, 0, "") {
                    sys.apply(Ev::Deliver(p));
                }
            }
            // the other callers' acknowledgements arrive and must reach them
            if busy && !sys.dead {
                if !sys.m.pings.is_empty() {
                    sys.apply(Ev::Deliver(SPacket::Pingresp));
                }
                for i in 1..3 {
                    if let Some(p) = sys.ack_for(i, 0, "") {
                        sys.apply(Ev::Deliver(p));
                    }
                }
            }
            if kind == 5 && !refused && !sys.dead && !sys.m.pings.is_empty() {
                sys.apply(Ev::Deliver(SPacket::Pingresp));
            }
            if busy_mode == 2 && !sys.dead {
                // the other caller's publish is still unacknowledged: with Receive Maximum 1 the next
                // QoS 1 publish is refused for the quota - whatever happened to the request under test -
                // and accepted again once the PUBACK has arrived
                sys.apply(Ev::Start(OpSpec::Publish(PublishSpec::simple(1, "g", b""))));
                let go = sys.m.ops.len() - 1;
                if !sys.dead {
                    if let Some(p) = sys.ack_for(0, 0, "") {
                        sys.apply(Ev::Deliver(p));
                    }
                }
                if !sys.dead {
                    if let Some(p) = sys.ack_for(go, 0, "") {
                        sys.apply(Ev::Deliver(p));
                    }
                }
            }
            // follow-up: a QoS 1 publish must be accepted (if it fits) although R may be 1
            sys.apply(Ev::Start(OpSpec::Publish(PublishSpec::simple(1, "f", b""))));
            let fo = sys.m.ops.len() - 1;
            if !sys.dead {
                if let Some(p) = sys.ack_for(fo, 0, "") {
                    sys.apply(Ev::Deliver(p));
                }
            }
            // an accepted subscribe; a message naming the rejected subscription's id as well
            if !sys.dead {
                sys.apply(Ev::Start(OpSpec::Subscribe(SubscribeSpec::simple("ok"))));
                let so = sys.m.ops.len() - 1;
                if let Some(p) = sys.ack_for(so, 0, "") {
                    sys.apply(Ev::Deliver(p));
                    if !sys.dead {
                        sys.apply(Ev::TakeStream(so));
                        let sb = sys.m.ops[so].sub.unwrap();
                        let mut ids = vec![sys.m.subs[sb].sub_id.unwrap()];
                        if let Some(r) = rejected_sub_id {
                            ids.insert(0, r);
                        }
                        sys.apply(Ev::Deliver(inbound(0, false, 0, &ids, "after")));
                    }
                }
            }
        }
        sys.finish();
        sys.report(ex, &["max-packet-size-refusal"]);
    })
}
