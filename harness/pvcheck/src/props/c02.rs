//! C02 - well-formed inbound packets decode to exactly the values the server sent.
//!
//! Server packets are produced by the reference encoder (explicit property order / repetition /
//! short forms), delivered whole to the running client and read back through public accessors only;
//! the reference model computes the expected accessor values (standard defaults for absent ones).

use super::common::*;
use super::*;
use crate::model::*;
use crate::spec::*;
use crate::sys::*;
use pvcore::refcodec::*;

pub fn check(tier: Tier) -> Check {
    let t = tier == Tier::Thorough;
    let parts = vec![
        Part::new("C02/connack", json!({"full": t}), 0, tier.pick(40, 900)),
        Part::new("C02/connack-values", json!({}), 0, 60),
        // the same on the second connection of a Context whose first one ended with a fragment of an
        // inbound packet in the reader (the user's DISCONNECT / end-of-stream / a failed write came first)
        Part::new("C02/connack-values", json!({"prelude": 11}), 0, 60),
        Part::new("C02/connack-values", json!({"prelude": 3}), 0, 60),
        Part::new("C02/values", json!({"prelude": 3}), 0, 120),
        Part::new("C02/values", json!({"prelude": 4}), 0, 120),
        Part::new("C02/auth", json!({}), 0, 60),
        Part::new("C02/acks", json!({}), 0, tier.pick(40, 300)),
        Part::new("C02/suback", json!({}), 0, 60),
        Part::new("C02/publish", json!({"full": t}), 0, tier.pick(40, 600)),
        Part::new("C02/disconnect", json!({}), 0, 60),
        Part::new("C02/values", json!({}), 0, 120),
        // strings of 2-, 3- and 4-byte characters behind 0..3 ASCII bytes: every byte offset from 4 up
        // to the end lies inside a character for one of them (anything that cuts, pads or measures a
        // string by bytes meets a character boundary it did not expect), through every error and
        // response type, which are also printed (Display / Debug, see spec::err_dig)
        Part::new("C02/utf8-align", json!({}), 0, 120),
        // what the accessors say does not change while a message waits to be read (real time)
        Part::new("C02/aging", json!({}), 0, 60),
        // the client announces a Maximum Packet Size of its own: packets of exactly that size (and one
        // byte less) are well within what the server may send
        Part::new("C02/own-limit", json!({}), 0, 60),
        Part::new("C02/lengths", json!({"full": t}), 0, tier.pick(60, 600)),
    ];
    Check {
        also_rel: false,
        property: "C02",
        level: "exploration",
        rule: "every server packet type x subsets of the properties legal for it (CONNACK: quick = all subsets of size <=4 (<=3 in every order) and >=14 in identity/reverse/rotated order, thorough = all 2^17 subsets x 3 orders; others: all subsets) x repeated user properties with duplicate keys (adjacent and separated by another key) x every legal reason code x short forms (PUBACK family 2/3/>=4, AUTH 0, DISCONNECT 0/1) x packet identifiers {1,127,128,255,256,16383,16384,65535} and subscription identifiers up to 268435455 (counters preset by the hook) x payload sizes crossing the 512/1024-byte buffer steps x boundary string lengths x a sweep in which, for every packet type, the property length takes every value in 118..=138 (thorough: also 16374..=16394) while the part after the properties (reason-code list of 1, 3, 118..=131 entries, payload, nothing) moves the remaining length across its own 127/128 (16383/16384) boundary independently; read back through ConnectRsp/ConnectError/AuthRsp/SubscribeRsp/UnsubscribeRsp/PublishData/Puback-Pubrec-PubcompError/Disconnected accessors; distinct_nontrivial = distinct packets whose values were read back; strings whose every byte offset lies inside a 2-/3-/4-byte character for some member, through every error and response type (C02/utf8-align); every returned error is printed (Display, Debug, source chain) and UserProperties probed for keys that were not sent; inbound packets of exactly the client's own Maximum Packet Size (C02/own-limit); CONNACK / value parts also on the second connection of a Context whose first one ended inside an inbound packet (params.prelude)".into(),
        assumptions: vec![
            "only property sets and reason codes the standard allows for the packet type; minimal variable byte integers".into(),
            "a successful CONNACK announcing Subscription Identifiers unavailable is excluded (documented assertion)".into(),
            "an AUTH with remaining length 1 is not generated (the standard defines only the 0 form)".into(),
        ],
        parts,
    }
}

fn s(n: usize) -> String {
    (0..n).map(|i| (b'a' + (i % 26) as u8) as char).collect()
}

const CONNACK_PROPS: [u8; 17] = [17, 33, 36, 37, 39, 18, 34, 31, 38, 40, 41, 42, 19, 26, 28, 21, 22];

fn connack_prop(id: u8, success: bool) -> Prop {
    match id {
        17 => Prop::u32(17, 3600),
        33 => Prop::u16(33, 20),
        36 => Prop::byte(36, 1),
        37 => Prop::byte(37, 0),
        39 => Prop::u32(39, 1_048_576),
        18 => Prop::str(18, "assigned-id"),
        34 => Prop::u16(34, 10),
        31 => Prop::str(31, "reason"),
        38 => Prop::user("k", "v"),
        40 => Prop::byte(40, 0),
        41 => Prop::byte(41, if success { 1 } else { 0 }),
        42 => Prop::byte(42, 0),
        19 => Prop::u16(19, 120),
        26 => Prop::str(26, "resp/info"),
        28 => Prop::str(28, "srv:1884"),
        21 => Prop::str(21, "method"),
        _ => Prop::bin(22, &[1, 2, 3]),
    }
}

fn permutations(n: usize) -> Vec<Vec<usize>> {
    fn rec(cur: &mut Vec<usize>, used: &mut Vec<bool>, n: usize, out: &mut Vec<Vec<usize>>) {
        if cur.len() == n {
            out.push(cur.clone());
            return;
        }
        for i in 0..n {
            if !used[i] {
                used[i] = true;
                cur.push(i);
                rec(cur, used, n, out);
                cur.pop();
                used[i] = false;
            }
        }
    }
    let mut out = vec![];
    rec(&mut vec![], &mut vec![false; n], n, &mut out);
    out
}

/// orders to try for a list of n properties
fn orders(n: usize, all_perms_upto: usize) -> Vec<Vec<usize>> {
    if n <= all_perms_upto {
        return permutations(n);
    }
    let id: Vec<usize> = (0..n).collect();
    let mut v = vec![id.clone(), id.iter().rev().cloned().collect()];
    let mut r = id.clone();
    r.rotate_left(n / 2);
    v.push(r);
    v
}

fn connack_masks(full: bool) -> Vec<u32> {
    let mut v = vec![];
    for m in 0..(1u32 << 17) {
        let c = m.count_ones();
        if full || c <= 4 || c >= 14 {
            v.push(m);
        }
    }
    v
}

const PUBACK_REASONS: &[u8] = &[0x00, 0x10, 0x80, 0x83, 0x87, 0x90, 0x91, 0x97, 0x99];
const PUBREL_REASONS: &[u8] = &[0x00, 0x92];
const SUBACK_REASONS: &[u8] = &[0x00, 0x01, 0x02, 0x80, 0x83, 0x87, 0x8f, 0x91, 0x97, 0x9e, 0xa1, 0xa2];
const UNSUBACK_REASONS: &[u8] = &[0x00, 0x11, 0x80, 0x83, 0x87, 0x8f, 0x91];
const PIDS: &[u16] = &[1, 127, 128, 255, 256, 16383, 16384, 65535];

/// reason string / user property combinations for the acknowledgement family
fn ack_props(k: usize) -> Vec<Prop> {
    match k {
        0 => vec![],
        1 => vec![Prop::str(31, "because")],
        2 => vec![Prop::user("k", "1")],
        3 => vec![Prop::user("k", "1"), Prop::user("k", "2"), Prop::user("z", "")],
        4 => vec![Prop::str(31, ""), Prop::user("k", "1"), Prop::user("k", "1")],
        5 => vec![Prop::user("a", "b"), Prop::str(31, "last")],
        // the same key again after a different one
        7 => vec![Prop::user("a", "1"), Prop::user("b", "2"), Prop::user("a", "3")],
        8 => vec![Prop::user("a", "1"), Prop::user("b", "2"), Prop::str(31, "mid"), Prop::user("b", "4"), Prop::user("a", "3")],
        _ => vec![
            Prop::user("k", "1"),
            Prop::str(31, "middle \u{00e9}"),
            Prop::user("k", "2"),
            Prop::user("", "empty key"),
        ],
    }
}
const N_ACK_PROPS: usize = 9;

pub fn scenario(name: &str, params: &Value) -> Scenario {
    let params = params.clone();
    let name = name.to_string();
    match name.as_str() {
        "C02/connack" => {
            let masks = connack_masks(params["full"].as_bool().unwrap_or(false));
            Box::new(move |chz, ex| {
                let m = masks[chz.choose(masks.len())];
                let success = chz.choose(2) == 0;
                let mut props: Vec<Prop> = vec![];
                for (i, id) in CONNACK_PROPS.iter().enumerate() {
                    if m & (1 << i) != 0 {
                        props.push(connack_prop(*id, success));
                    }
                }
                let ords = orders(props.len(), 3);
                let o = &ords[chz.choose(ords.len())];
                let ordered: Vec<Prop> = o.iter().map(|&i| props[i].clone()).collect();
                let mut sys = Sys::new("C02", &name, chz);
                sys.params = params.clone();
                sys.connect_with(
                    ConnectSpec::default(),
                    SPacket::Connack {
                        session_present: m & 1 != 0 && success,
                        reason: if success { 0 } else { 0x87 },
                        props: ordered,
                    },
                );
                sys.finish();
                sys.report(ex, &["connect-result"]);
            })
        }
        "C02/connack-values" => Box::new(move |chz, ex| {
            // every legal reason code, boundary values of every property, repeated user properties
            let reason = super::c13::CONNECT_REASONS[chz.choose(super::c13::CONNECT_REASONS.len())];
            let lens = [0usize, 1, 127, 128, 16383, 16384];
            let which = chz.choose(14);
            let l = lens[chz.choose(lens.len())];
            let p = match which {
                0 => vec![Prop::u32(17, [0u32, 1, u32::MAX, 65536][chz.choose(4)])],
                1 => vec![Prop::u16(33, [1u16, 255, 256, 65535][chz.choose(4)])],
                2 => vec![Prop::byte(36, chz.choose(2) as u8)],
                3 => vec![Prop::byte(37, chz.choose(2) as u8), Prop::byte(40, chz.choose(2) as u8), Prop::byte(42, chz.choose(2) as u8)],
                4 => vec![Prop::u32(39, [1u32, 255, 65536, u32::MAX][chz.choose(4)])],
                5 => vec![Prop::str(18, &s(l))],
                6 => vec![Prop::u16(34, [0u16, 1, 256, 65535][chz.choose(4)])],
                7 => vec![Prop::str(31, &s(l))],
                8 => {
                    let n = chz.choose(5);
                    // repeated keys, adjacent and not
                    let key = s(l.min(50));
                    (0..n)
                        .map(|i| Prop::user(if n == 4 && i % 2 == 1 { "other" } else { key.as_str() }, &format!("{}{}", s(l), i)))
                        .collect()
                }
                9 => vec![Prop::u16(19, [0u16, 1, 256, 65535][chz.choose(4)])],
                10 => vec![Prop::str(26, &s(l))],
                11 => vec![Prop::str(28, &s(l))],
                12 => vec![Prop::str(21, &s(l)), Prop::bin(22, s(l).as_bytes())],
                _ => vec![Prop::str(31, "\u{feff}multi \u{00e9}\u{4e2d}\u{1f600}"), Prop::user("\u{feff}\u{4e2d}", "\u{feff}")],
            };
            let mut sys = Sys::new("C02", &name, chz);
            sys.params = params.clone();
            sys.connect_with(
                ConnectSpec::default(),
                SPacket::Connack {
                    session_present: reason == 0 && chz.choose(2) == 1,
                    reason,
                    props: p,
                },
            );
            sys.finish();
            sys.report(ex, &["connect-result"]);
        }),
        "C02/auth" => Box::new(move |chz, ex| {
            let form = [2u8, 0][chz.choose(2)];
            let reason = if form == 0 { 0 } else { [0x18u8, 0x19, 0x00][chz.choose(3)] };
            let mut props = vec![];
            if form == 2 {
                let mask = chz.choose(4); // data, reason string
                let nuser = chz.choose(3);
                props.push(Prop::str(21, "SCRAM"));
                if mask & 1 != 0 {
                    props.push(Prop::bin(22, &[0, 1, 255]));
                }
                if mask & 2 != 0 {
                    props.push(Prop::str(31, "continue"));
                }
                for i in 0..nuser {
                    props.push(Prop::user("k", &format!("{}", i)));
                }
                let ords = orders(props.len(), 4);
                let o = &ords[chz.choose(ords.len())];
                props = o.iter().map(|&i| props[i].clone()).collect();
            }
            let mut sys = Sys::new("C02", &name, chz);
            sys.params = params.clone();
            sys.connect_with(
                ConnectSpec {
                    auth_method: Some("SCRAM".into()),
                    auth_data: Some(vec![1]),
                    ..Default::default()
                },
                SPacket::Auth {
                    reason,
                    props,
                    form,
                },
            );
            sys.finish();
            sys.report(ex, &["connect-auth"]);
        }),
        "C02/acks" => Box::new(move |chz, ex| {
            let ty = [4u8, 5, 7, 6][chz.choose(4)];
            let pid = PIDS[chz.choose(PIDS.len())];
            let form = [2u8, 3, 4][chz.choose(3)];
            let reasons: &[u8] = match ty {
                4 | 5 => PUBACK_REASONS,
                _ => PUBREL_REASONS,
            };
            let reason = if form == 2 { 0 } else { reasons[chz.choose(reasons.len())] };
            let props = if form == 4 { ack_props(chz.choose(N_ACK_PROPS)) } else { vec![] };
            let mut sys = Sys::new("C02", &name, chz);
            sys.params = params.clone();
            sys.bring_up(vec![]);
            sys.w.handle().verif_set_ids(pid, 1);
            sys.events.push(format!("PresetPacketId({})", pid));
            let pkt = SPacket::Ack {
                ty,
                pid,
                reason,
                props,
                form,
            };
            match ty {
                4 => {
                    sys.apply(Ev::Start(OpSpec::Publish(PublishSpec::simple(1, "t", b"x"))));
                    sys.apply(Ev::Deliver(pkt));
                }
                5 => {
                    sys.apply(Ev::Start(OpSpec::Publish(PublishSpec::simple(2, "t", b"x"))));
                    sys.apply(Ev::Deliver(pkt));
                }
                7 => {
                    sys.apply(Ev::Start(OpSpec::Publish(PublishSpec::simple(2, "t", b"x"))));
                    if !sys.dead {
                        let rec = sys.ack_for(0, 0, "").unwrap();
                        sys.apply(Ev::Deliver(rec));
                        sys.apply(Ev::Deliver(pkt));
                    }
                }
                _ => {
                    // PUBREL for an inbound QoS 2 message: accepted if a PUBCOMP with its id appears
                    sys.apply(Ev::Deliver(inbound(2, false, pid, &[], "q2")));
                    sys.apply(Ev::Deliver(pkt));
                }
            }
            sys.finish();
            sys.report(ex, &["puback", "pubrec-ok", "pubrec-fail", "pubcomp", "pubrel-in"]);
        }),
        "C02/suback" => Box::new(move |chz, ex| {
            let unsub = chz.choose(2) == 1;
            let n = 1 + chz.choose(3);
            let pid = PIDS[chz.choose(PIDS.len())];
            let table: &[u8] = if unsub { UNSUBACK_REASONS } else { SUBACK_REASONS };
            // every legal reason code at the first position, the rest rotate through the table
            let r0 = chz.choose(table.len());
            let reasons: Vec<u8> = (0..n).map(|i| table[(r0 + 5 * i) % table.len()]).collect();
            let props = ack_props(chz.choose(N_ACK_PROPS));
            let mut sys = Sys::new("C02", &name, chz);
            sys.params = params.clone();
            sys.bring_up(vec![]);
            sys.w.handle().verif_set_ids(pid, 1);
            sys.events.push(format!("PresetPacketId({})", pid));
            if unsub {
                sys.apply(Ev::Start(OpSpec::Unsubscribe(UnsubscribeSpec {
                    filters: (0..n).map(|i| format!("f{}", i)).collect(),
                    user_props: vec![],
                })));
                sys.apply(Ev::Deliver(SPacket::Unsuback {
                    pid,
                    props,
                    reasons,
                }));
            } else {
                sys.apply(Ev::Start(OpSpec::Subscribe(SubscribeSpec {
                    filters: (0..n).map(|i| FilterSpec::plain(&format!("f{}", i))).collect(),
                    user_props: vec![],
                })));
                sys.apply(Ev::Deliver(SPacket::Suback {
                    pid,
                    props,
                    reasons,
                }));
            }
            // PINGRESP too
            sys.apply(Ev::Start(OpSpec::Ping));
            sys.apply(Ev::Deliver(SPacket::Pingresp));
            sys.finish();
            sys.report(ex, &["suback", "unsuback"]);
        }),
        "C02/publish" => {
            let full = params["full"].as_bool().unwrap_or(false);
            Box::new(move |chz, ex| {
                let sub_id = [1u32, 127, 128, 16383, 16384, 2097151, 2097152, 268_435_455][chz.choose(8)];
                let qos = chz.choose(3) as u8;
                let dup = qos > 0 && chz.choose(2) == 1;
                let retain = chz.choose(2) == 1;
                let pid = PIDS[chz.choose(if full { PIDS.len() } else { 3 })];
                // (the last three: remaining lengths of three bytes, and of four - 2 MiB and more)
                let sizes = [0usize, 1, 510, 511, 512, 513, 514, 16_400, 2_097_152, 1022, 1023, 1024, 1025, 1026, 2048, 5000, 70_000, 3_200_000];
                let psize = sizes[chz.choose(if full { sizes.len() } else { 9 })];
                // (quick tier: the payloads of 16 KiB and more go with no / every property and with one
                // identifier boundary, so that the part completes within its time box)
                let heavy = psize > 16_000 && !full;
                let mask = if heavy { [0usize, 63][chz.choose(2)] } else { chz.choose(64) };
                let nuser = if heavy { [0usize, 3][chz.choose(2)] } else { chz.choose(4) };
                let mut props = vec![Prop::var(P_SUBSCRIPTION_ID, sub_id)];
                if nuser == 2 {
                    // (one SUBSCRIBE with overlapping filters: the server lists its identifier once per match)
                    props.push(Prop::var(P_SUBSCRIPTION_ID, sub_id));
                }
                if mask & 1 != 0 {
                    props.push(Prop::byte(P_PAYLOAD_FORMAT, (mask >> 3) as u8 & 1));
                }
                if mask & 2 != 0 {
                    props.push(Prop::u16(P_TOPIC_ALIAS, 300));
                }
                if mask & 4 != 0 {
                    props.push(Prop::u32(P_MESSAGE_EXPIRY, 86400));
                }
                if mask & 8 != 0 {
                    props.push(Prop::bin(P_CORRELATION_DATA, &[9, 8, 7, 6]));
                }
                if mask & 16 != 0 {
                    props.push(Prop::str(P_RESPONSE_TOPIC, "re/sp"));
                }
                if mask & 32 != 0 {
                    props.push(Prop::str(P_CONTENT_TYPE, "application/json"));
                }
                for i in 0..nuser {
                    // with three: dup, other, dup (the same key again after a different one)
                    props.push(Prop::user(if nuser == 3 && i == 1 { "other" } else { "dup" }, &format!("{}", i)));
                }
                if nuser == 3 {
                    // the very same pair once more (name and value): still a property of its own
                    props.push(Prop::user("dup", "0"));
                }
                let ords = orders(props.len(), if full { 4 } else { 3 });
                let o = &ords[chz.choose(ords.len())];
                let props: Vec<Prop> = o.iter().map(|&i| props[i].clone()).collect();
                let mut sys = Sys::new("C02", &name, chz);
                sys.params = params.clone();
                // (the broker uses topic alias 300: the client must have allowed that many)
                sys.base_connect.topic_alias_maximum = Some(300);
                sys.bring_up(vec![]);
                sys.w.handle().verif_set_ids(1, sub_id);
                sys.events.push(format!("PresetSubId({})", sub_id));
                sys.apply(Ev::Start(OpSpec::Subscribe(SubscribeSpec::simple("s/#"))));
                if !sys.dead {
                    let ack = sys.ack_for(0, 0, "").unwrap();
                    sys.apply(Ev::Deliver(ack));
                    sys.apply(Ev::TakeStream(0));
                }
                sys.apply(Ev::Deliver(SPacket::Publish {
                    dup,
                    qos,
                    retain,
                    topic: "\u{feff}s/\u{00e9}/x".into(),
                    pid: if qos > 0 { Some(pid) } else { None },
                    props,
                    payload: (0..psize).map(|i| (i % 251) as u8).collect(),
                }));
                sys.finish();
                sys.report(ex, &["message-dispatched"]);
            })
        }
        "C02/disconnect" => Box::new(move |chz, ex| {
            let reason = DISCONNECT_REASONS[chz.choose(DISCONNECT_REASONS.len())];
            let form = if reason == 0 { [0u8, 1, 2][chz.choose(3)] } else { [1u8, 2][chz.choose(2)] };
            let props = if form == 2 {
                let mut p = vec![];
                let mask = chz.choose(4);
                if mask & 1 != 0 {
                    p.push(Prop::str(P_REASON_STRING, "maintenance"));
                }
                if mask & 2 != 0 {
                    p.push(Prop::str(P_SERVER_REFERENCE, "other.example:8883"));
                }
                let nu = chz.choose(4);
                for i in 0..nu {
                    p.push(Prop::user(if nu == 3 && i == 1 { "j" } else { "k" }, &format!("{}", i)));
                }
                let ords = orders(p.len(), 4);
                let o = &ords[chz.choose(ords.len())];
                o.iter().map(|&i| p[i].clone()).collect()
            } else {
                vec![]
            };
            let mut sys = Sys::new("C02", &name, chz);
            sys.params = params.clone();
            sys.bring_up(vec![]);
            sys.apply(Ev::Deliver(SPacket::Disconnect {
                reason,
                props,
                form,
            }));
            sys.finish();
            sys.report(ex, &["server-disconnect"]);
        }),
        "C02/own-limit" => Box::new(move |chz, ex| {
            let n = [64usize, 200, 1024, 3000][chz.choose(4)];
            let exact = chz.choose(2) == 1;
            let mut sys = Sys::new("C02", &name, chz);
            sys.params = params.clone();
            let spec = ConnectSpec { maximum_packet_size: Some(n as u32), ..Default::default() };
            // a CONNACK of exactly n bytes (n = 64): 2 + 2 + 1 + reason string (3 + k)
            let connack_props = if n == 64 && exact { vec![Prop::str(31, &"c".repeat(64 - 8))] } else { vec![] };
            sys.connect_with(spec, SPacket::Connack { session_present: false, reason: 0, props: connack_props });
            if !sys.dead {
                sys.start_run();
            }
            sys.apply(Ev::Start(OpSpec::Subscribe(SubscribeSpec::simple("s"))));
            if sys.dead {
                return sys.report(ex, &[]);
            }
            let ack = sys.ack_for(0, 0, "").unwrap();
            sys.apply(Ev::Deliver(ack));
            sys.apply(Ev::TakeStream(0));
            let sid = sys.m.subs[0].sub_id.unwrap();
            let target = if exact { n } else { n - 1 };
            let mut plen = target.saturating_sub(12);
            let mut pkt;
            let mut tries = 0;
            loop {
                pkt = SPacket::Publish {
                    dup: false,
                    qos: 1,
                    retain: false,
                    topic: "in/t".into(),
                    pid: Some(5),
                    props: vec![Prop::var(11, sid)],
                    payload: vec![0x42; plen],
                };
                let l = pkt.encode().len();
                tries += 1;
                if l == target || tries > 6 {
                    break;
                }
                if l > target { plen -= l - target } else { plen += target - l }
            }
            sys.events.push(format!("own Maximum Packet Size {}, inbound PUBLISH of {} bytes", n, pkt.encode().len()));
            sys.apply(Ev::Deliver(pkt));
            sys.finish();
            sys.report(ex, &["message-dispatched"]);
        }),
        "C02/values" => Box::new(move |chz, ex| {
            // boundary string / binary lengths in the packets read while running
            let lens = [0usize, 1, 127, 128, 16383, 16384, 65535];
            let l = lens[chz.choose(lens.len())];
            let multibyte = chz.choose(2) == 1;
            let st = if multibyte {
                // (U+FEFF is an ordinary character in MQTT strings: never a byte order mark to be stripped)
    let pat = ['\u{feff}', '\u{00e9}', '\u{4e2d}', '\u{1f600}'];
                (0..(l / 3).min(20000)).map(|i| pat[i % 4]).collect::<String>()
            } else {
                s(l)
            };
            let which = chz.choose(6);
            let mut sys = Sys::new("C02", &name, chz);
            sys.params = params.clone();
            sys.bring_up(vec![]);
            match which {
                0 => {
                    sys.apply(Ev::Start(OpSpec::Publish(PublishSpec::simple(1, "t", b"x"))));
                    sys.apply(Ev::Deliver(SPacket::Ack {
                        ty: 4,
                        pid: 1,
                        reason: 0x80,
                        props: vec![Prop::str(31, &st), Prop::user(&st, &st)],
                        form: 4,
                    }));
                }
                1 => {
                    sys.apply(Ev::Start(OpSpec::Subscribe(SubscribeSpec::simple("s"))));
                    sys.apply(Ev::Deliver(SPacket::Suback {
                        pid: 1,
                        props: vec![Prop::user(&st, ""), Prop::str(31, &st)],
                        reasons: vec![1],
                    }));
                }
                2 => {
                    sys.apply(Ev::Deliver(SPacket::Disconnect {
                        reason: 0x8b,
                        props: vec![Prop::str(P_SERVER_REFERENCE, &st), Prop::str(31, &st)],
                        form: 2,
                    }));
                }
                _ => {
                    sys.apply(Ev::Start(OpSpec::Subscribe(SubscribeSpec::simple("s"))));
                    if !sys.dead {
                        let ack = sys.ack_for(0, 0, "").unwrap();
                        sys.apply(Ev::Deliver(ack));
                        sys.apply(Ev::TakeStream(0));
                    }
                    let mut props = vec![Prop::var(P_SUBSCRIPTION_ID, 1)];
                    let topic = match which {
                        3 => {
                            props.push(Prop::str(P_RESPONSE_TOPIC, &st));
                            "t".to_string()
                        }
                        4 => {
                            props.push(Prop::bin(P_CORRELATION_DATA, st.as_bytes()));
                            props.push(Prop::str(P_CONTENT_TYPE, &st));
                            "t".to_string()
                        }
                        _ => if st.is_empty() { "t".into() } else { st.clone() },
                    };
                    sys.apply(Ev::Deliver(SPacket::Publish {
                        dup: false,
                        qos: 0,
                        retain: false,
                        topic,
                        pid: None,
                        props,
                        payload: st.as_bytes().to_vec(),
                    }));
                }
            }
            sys.finish();
            sys.report(ex, &["puback", "suback", "server-disconnect", "message-dispatched"]);
        }),
        "C02/utf8-align" => utf8_align("C02", name, params),
        "C02/aging" => Box::new(move |chz, ex| {
            // a message read 1.3 s (real time) after it arrived shows the values that were encoded
            let exp = [100u32, 1, u32::MAX][chz.choose(3)];
            let mut sys = Sys::new("C02", &name, chz);
            sys.params = params.clone();
            sys.bring_up(vec![]);
            sys.apply(Ev::Start(OpSpec::Subscribe(SubscribeSpec::simple("s"))));
            if sys.dead {
                return sys.report(ex, &[]);
            }
            let ack = sys.ack_for(0, 0, "").unwrap();
            sys.apply(Ev::Deliver(ack));
            sys.apply(Ev::TakeStream(0));
            sys.apply(Ev::Hold(crate::world::Tid::Stream(0)));
            sys.apply(Ev::Deliver(SPacket::Publish {
                dup: false,
                qos: 0,
                retain: false,
                topic: "t".into(),
                pid: None,
                props: vec![Prop::var(P_SUBSCRIPTION_ID, 1), Prop::u32(P_MESSAGE_EXPIRY, exp)],
                payload: b"aging".to_vec(),
            }));
            sys.events.push("(1.3 s of real time pass)".into());
            std::thread::sleep(std::time::Duration::from_millis(1300));
            sys.apply(Ev::Release(crate::world::Tid::Stream(0)));
            sys.finish();
            sys.report(ex, &["message-dispatched"]);
        }),
        "C02/lengths" => {
            let full = params["full"].as_bool().unwrap_or(false);
            Box::new(move |chz, ex| {
                // The property length and the remaining length cross their encoding boundaries at
                // different points: a reason string sized so that the property length is `pl`, and
                // a tail (reason codes / payload) of `tail` bytes behind the properties.
                let ty = chz.choose(10);
                let mut pls: Vec<usize> = (118..=138).collect();
                if full {
                    pls.extend(16374..=16394);
                } else {
                    pls.extend([16382, 16383, 16384, 16385]);
                }
                let pl = pls[chz.choose(pls.len())];
                let tails: &[usize] = match ty {
                    6 | 7 => &[1, 3, 118, 119, 120, 121, 122, 123, 124, 125, 126, 127, 128, 129, 130, 131],
                    8 => &[0, 1, 9, 120, 130],
                    _ => &[0],
                };
                let tail = tails[chz.choose(tails.len())];
                // reason string: id (1) + length prefix (2) + text
                let text = s(pl - 3);
                let mut sys = Sys::new("C02", &name, chz);
                sys.params = params.clone();
                match ty {
                    0 | 1 => {
                        let ok = ty == 0;
                        sys.connect_with(
                            ConnectSpec::default(),
                            SPacket::Connack {
                                session_present: false,
                                reason: if ok { 0 } else { 0x87 },
                                props: vec![Prop::str(31, &text)],
                            },
                        );
                    }
                    2 => {
                        // method "m" takes 4 bytes, the reason string the rest
                        let text = s(pl - 3 - 4);
                        sys.connect_with(
                            ConnectSpec {
                                auth_method: Some("m".into()),
                                auth_data: Some(vec![1]),
                                ..Default::default()
                            },
                            SPacket::Auth {
                                reason: 0x18,
                                props: vec![Prop::str(21, "m"), Prop::str(31, &text)],
                                form: 2,
                            },
                        );
                    }
                    3 | 4 | 5 => {
                        sys.bring_up(vec![]);
                        let q = if ty == 3 { 1 } else { 2 };
                        sys.apply(Ev::Start(OpSpec::Publish(PublishSpec::simple(q, "t", b"x"))));
                        if ty == 5 && !sys.dead {
                            let rec = sys.ack_for(0, 0, "").unwrap();
                            sys.apply(Ev::Deliver(rec));
                        }
                        sys.apply(Ev::Deliver(SPacket::Ack {
                            ty: [4u8, 5, 7][ty - 3],
                            pid: 1,
                            reason: if ty == 5 { 0x92 } else { 0x80 },
                            props: vec![Prop::str(31, &text)],
                            form: 4,
                        }));
                    }
                    6 => {
                        sys.bring_up(vec![]);
                        sys.apply(Ev::Start(OpSpec::Subscribe(SubscribeSpec {
                            filters: (0..tail).map(|i| FilterSpec::plain(&format!("f{}", i))).collect(),
                            user_props: vec![],
                        })));
                        sys.apply(Ev::Deliver(SPacket::Suback {
                            pid: 1,
                            props: vec![Prop::str(31, &text)],
                            reasons: (0..tail).map(|i| SUBACK_REASONS[(i * 5 + tail) % SUBACK_REASONS.len()]).collect(),
                        }));
                    }
                    7 => {
                        sys.bring_up(vec![]);
                        sys.apply(Ev::Start(OpSpec::Unsubscribe(UnsubscribeSpec {
                            filters: (0..tail).map(|i| format!("f{}", i)).collect(),
                            user_props: vec![],
                        })));
                        sys.apply(Ev::Deliver(SPacket::Unsuback {
                            pid: 1,
                            props: vec![Prop::str(31, &text)],
                            reasons: (0..tail).map(|i| UNSUBACK_REASONS[(i * 3 + tail) % UNSUBACK_REASONS.len()]).collect(),
                        }));
                    }
                    8 => {
                        sys.bring_up(vec![]);
                        sys.apply(Ev::Start(OpSpec::Subscribe(SubscribeSpec::simple("s"))));
                        if !sys.dead {
                            let ack = sys.ack_for(0, 0, "").unwrap();
                            sys.apply(Ev::Deliver(ack));
                            sys.apply(Ev::TakeStream(0));
                        }
                        // subscription identifier 1 takes 2 bytes, the content type the rest
                        let text = s(pl - 3 - 2);
                        sys.apply(Ev::Deliver(SPacket::Publish {
                            dup: false,
                            qos: 1,
                            retain: false,
                            topic: "t".into(),
                            pid: Some(3),
                            props: vec![Prop::var(P_SUBSCRIPTION_ID, 1), Prop::str(P_CONTENT_TYPE, &text)],
                            payload: (0..tail).map(|i| i as u8).collect(),
                        }));
                    }
                    _ => {
                        sys.bring_up(vec![]);
                        sys.apply(Ev::Deliver(SPacket::Disconnect {
                            reason: 0x8b,
                            props: vec![Prop::str(31, &text)],
                            form: 2,
                        }));
                    }
                }
                sys.finish();
                sys.report(
                    ex,
                    &["connect-result", "connect-auth", "puback", "pubrec-fail", "pubcomp", "suback", "unsuback", "message-dispatched", "server-disconnect"],
                );
            })
        }
        _ => {
            eprintln!("MACHINERY: unknown scenario {}", name);
            std::process::exit(2);
        }
    }
}

/// strings of 2-, 3- and 4-byte characters behind 0..3 ASCII bytes through every error / response type
pub fn utf8_align(prop: &'static str, name: String, params: Value) -> Scenario {
    Box::new(move |chz, ex| {
            let k = chz.choose(4);
            let ch = ['\u{00e9}', '\u{4e2d}', '\u{1f600}'][chz.choose(3)];
            let total = [40usize, 100, 130, 300, 1100][chz.choose(5)];
            let mut st: String = "abc"[..k].to_string();
            while st.len() + ch.len_utf8() <= total {
                st.push(ch);
            }
            let which = chz.choose(8);
            let mut sys = Sys::new(prop, &name, chz);
            sys.params = params.clone();
            let rs = || vec![Prop::str(31, &st), Prop::user(&st, &st)];
            if which == 0 {
                // a refusing CONNACK
                sys.connect_with(
                    ConnectSpec::default(),
                    SPacket::Connack { session_present: false, reason: 0x87, props: vec![Prop::str(31, &st), Prop::str(P_SERVER_REFERENCE, &st), Prop::user(&st, &st)] },
                );
                sys.m.hits.push("utf8-align");
                return sys.report(ex, &["utf8-align"]);
            }
            sys.bring_up(vec![]);
            match which {
                1 => {
                    sys.apply(Ev::Start(OpSpec::Publish(PublishSpec::simple(1, "t", b"x"))));
                    sys.apply(Ev::Deliver(SPacket::Ack { ty: 4, pid: 1, reason: 0x97, props: rs(), form: 4 }));
                }
                2 => {
                    sys.apply(Ev::Start(OpSpec::Publish(PublishSpec::simple(2, "t", b"x"))));
                    sys.apply(Ev::Deliver(SPacket::Ack { ty: 5, pid: 1, reason: 0x91, props: rs(), form: 4 }));
                }
                3 => {
                    sys.apply(Ev::Start(OpSpec::Publish(PublishSpec::simple(2, "t", b"x"))));
                    sys.apply(Ev::Deliver(SPacket::Ack { ty: 5, pid: 1, reason: 0, props: vec![], form: 2 }));
                    sys.apply(Ev::Deliver(SPacket::Ack { ty: 7, pid: 1, reason: 0x92, props: rs(), form: 4 }));
                }
                4 => {
                    sys.apply(Ev::Deliver(SPacket::Disconnect {
                        reason: 0x9c,
                        props: vec![Prop::str(P_SERVER_REFERENCE, &st), Prop::str(31, &st), Prop::user(&st, &st)],
                        form: 2,
                    }));
                }
                5 => {
                    sys.apply(Ev::Start(OpSpec::Subscribe(SubscribeSpec::simple("s"))));
                    sys.apply(Ev::Deliver(SPacket::Suback { pid: 1, props: rs(), reasons: vec![0x80] }));
                }
                6 => {
                    sys.apply(Ev::Start(OpSpec::Unsubscribe(UnsubscribeSpec::simple("s"))));
                    sys.apply(Ev::Deliver(SPacket::Unsuback { pid: 1, props: rs(), reasons: vec![0x11] }));
                }
                _ => {
                    sys.apply(Ev::Start(OpSpec::Subscribe(SubscribeSpec::simple("s"))));
                    if !sys.dead {
                        let ack = sys.ack_for(0, 0, "").unwrap();
                        sys.apply(Ev::Deliver(ack));
                        sys.apply(Ev::TakeStream(0));
                    }
                    sys.apply(Ev::Deliver(SPacket::Publish {
                        dup: false,
                        qos: 0,
                        retain: false,
                        topic: st.clone(),
                        pid: None,
                        props: vec![
                            Prop::var(P_SUBSCRIPTION_ID, 1),
                            Prop::str(P_RESPONSE_TOPIC, &st),
                            Prop::str(P_CONTENT_TYPE, &st),
                            Prop::user(&st, &st),
                        ],
                        payload: st.as_bytes().to_vec(),
                    }));
                }
            }
            sys.finish();
            sys.m.hits.push("utf8-align");
            sys.report(ex, &["utf8-align"]);
        })
}
