//! C13 - connect() and run() end with the documented outcome, and only then.

use super::common::*;
use super::*;
use crate::model::*;
use crate::spec::*;
use crate::sys::*;
use crate::world::CtxCmd;
use pvcore::refcodec::*;

pub const CONNECT_REASONS: &[u8] = &[
    0x00, 0x80, 0x81, 0x82, 0x83, 0x84, 0x85, 0x86, 0x87, 0x88, 0x89, 0x8a, 0x8c, 0x90, 0x95, 0x97,
    0x99, 0x9a, 0x9b, 0x9c, 0x9d, 0x9f,
];

pub fn check(tier: Tier) -> Check {
    let mut parts = vec![
        Part::new("C13/connect", json!({}), 0, 60),
        Part::new("C13/connect", json!({"prelude": 11}), 0, 60),
        Part::new("C13/server-disconnect", json!({}), 0, 60),
        Part::new("C13/user-disconnect", json!({}), 0, 60),
    ];
    for k in 0..=tier.pick(1, 2) {
        let d = match (tier, k) {
            (Tier::Quick, 0) => 6,
            (Tier::Quick, _) => 5,
            (Tier::Thorough, 0) => 7,
            (Tier::Thorough, 1) => 6,
            (Tier::Thorough, _) => 5,
        };
        parts.push(Part::new("C13/causes", json!({"depth": d}), k, tier.pick(90, 600)));
        if k == 0 {
            parts.push(Part::new("C13/causes", json!({"depth": d - 1, "flavour": 1}), 0, tier.pick(40, 600)));
            parts.push(Part::new("C13/causes", json!({"depth": d - 2, "flavour": 2}), 0, tier.pick(40, 600)));
        }
    }
    // a Maximum Packet Size in force: some requests (among them a long DISCONNECT) are refused
    parts.push(Part::new("C13/causes", json!({"depth": tier.pick(4, 5), "m": 14}), tier.pick(0, 1), tier.pick(40, 600)));
    // the second connection of a Context whose first one ended inside a packet (3), with a failed
    // acknowledgement write (4), by the user's DISCONNECT (5), by a DISCONNECT whose write failed (6), by
    // the server's DISCONNECT (7): run() serves it until a cause of its own occurs
    for fl in [3u64, 4, 5, 6, 7] {
        parts.push(Part::new("C13/causes", json!({"depth": tier.pick(3, 4), "flavour": fl}), 0, tier.pick(40, 600)));
    }
    // the transport's errors carry other io::ErrorKinds (WouldBlock, Interrupted, UnexpectedEof), and a
    // read error may be transient: SocketClosed all the same
    for k in [1u64, 2, 3] {
        parts.push(Part::new("C13/causes", json!({"depth": tier.pick(3, 4), "errkind": k}), 0, tier.pick(40, 600)));
    }
    // persistent back-pressure on the write half: causes arriving while a packet is half written
    parts.push(Part::new("C13/causes", json!({"depth": tier.pick(4, 5), "wb": true}), 1, tier.pick(40, 600)));
    // a resumed session whose new connection announces a Maximum Packet Size below the packets to
    // re-send (they were begun under the old connection's terms): no reason for run() to return
    parts.push(Part::new("C13/resumed", json!({"depth": tier.pick(3, 4), "expiry": 1000, "secs_ago": 10, "m2": 12}), 0, 60));
    // value flavour (DESIGN 4): the same exploration with requests / inbound messages of unusual content
    parts.push(Part::new("C13/causes", json!({"depth": tier.pick(4, 5), "vals": 1}), tier.pick(0, 1), tier.pick(40, 600)));
    Check {
        also_rel: false,
        property: "C13",
        level: "model_checking",
        rule: "connect()/authorize(): CONNACK with each of the 22 reasons x property sets, AUTH challenge and continuation, end-of-stream at every byte offset of the CONNACK, read and write errors; run(): every terminating cause (user DISCONNECT, server DISCONNECT, EOF, read error, write error, last handle dropped, undecodable packet) injected at every point of every bounded history of operations (idle, operations outstanding, streams open, mid-QoS 2), followed by further operations; flat sweeps over all 29 DISCONNECT reasons x property sets (the user's DISCONNECT also under a Maximum Packet Size that refuses it: run() must then keep serving); connect() on the second connection of a Context whose first one ended by the user's DISCONNECT inside an inbound packet; server DISCONNECT sweeps under Request Problem Information unset / 1 / 0 and CONNACKs with reason string and user property; poll_close answering Ok / Err / Pending; value flavour; non-trivial = run()/connect() returned".into(),
        assumptions: vec![
            "which error is returned for undecodable input is unconstrained".into(),
            "the context task drops the Context right after run() returned".into(),
        ],
        parts,
    }
}

/// every property a CONNACK may carry, in one of three orders (as listed / reversed / rotated)
fn full_connack_props(order: usize) -> Vec<Prop> {
    let mut v = vec![
        Prop::u32(P_SESSION_EXPIRY, 77),
        Prop::u16(P_RECEIVE_MAXIMUM, 9),
        Prop::byte(P_MAXIMUM_QOS, 1),
        Prop::byte(P_RETAIN_AVAILABLE, 0),
        Prop::u32(P_MAXIMUM_PACKET_SIZE, 4096),
        Prop::str(P_ASSIGNED_CLIENT_ID, "assigned"),
        Prop::u16(P_TOPIC_ALIAS_MAXIMUM, 3),
        Prop::str(P_REASON_STRING, "ok"),
        Prop::user("z", "1"),
        Prop::user("a", "2"),
        Prop::byte(P_WILDCARD_SUB_AVAILABLE, 0),
        Prop::byte(P_SUB_ID_AVAILABLE, 1),
        Prop::byte(P_SHARED_SUB_AVAILABLE, 0),
        Prop::u16(P_SERVER_KEEP_ALIVE, 0),
        Prop::str(P_RESPONSE_INFO, "resp"),
        Prop::str(P_SERVER_REFERENCE, "ref"),
        Prop::str(P_AUTH_METHOD, "m"),
        Prop::bin(P_AUTH_DATA, &[9, 8]),
    ];
    match order {
        0 => {}
        1 => v.reverse(),
        _ => v.rotate_left(7),
    }
    v
}

fn connect_scenario(name: String, params: Value) -> Scenario {
    Box::new(move |chz, ex| {
        let mut sys = Sys::new("C13", &name, chz);
        sys.params = params.clone();
        let rich = vec![
            Prop::str(P_REASON_STRING, "because"),
            Prop::str(P_SERVER_REFERENCE, "other:1883"),
            Prop::user("a", "1"),
            Prop::user("a", "2"),
        ];
        let mode = chz.choose(5);
        match mode {
            0 => {
                // CONNACK with every reason x property set x session present
                let reason = CONNECT_REASONS[chz.choose(CONNECT_REASONS.len())];
                let props = match chz.choose(7) {
                    0 => vec![],
                    1 => rich.clone(),
                    // (the documented assertion about Subscription Identifiers Available = 0 concerns
                    // successful CONNACKs; a refusal carrying it is reported like any other refusal)
                    6 if reason >= 0x80 => vec![Prop::byte(P_SUB_ID_AVAILABLE, 0), Prop::str(P_REASON_STRING, "no")],
                    6 => vec![Prop::byte(P_SUB_ID_AVAILABLE, 1)],
                    3 => full_connack_props(0),
                    4 => full_connack_props(1),
                    5 => full_connack_props(2),
                    _ => {
                        let mut p = rich.clone();
                        p.push(Prop::u16(P_RECEIVE_MAXIMUM, 7));
                        p.push(Prop::u32(P_MAXIMUM_PACKET_SIZE, 1000));
                        p.push(Prop::u32(P_SESSION_EXPIRY, 99));
                        p
                    }
                };
                let sp = reason == 0 && chz.choose(2) == 1;
                sys.connect_with(
                    ConnectSpec::default(),
                    SPacket::Connack {
                        session_present: sp,
                        reason,
                        props,
                    },
                );
            }
            1 => {
                // extended authentication: AUTH challenge, authorize(), then AUTH again or CONNACK
                let spec = ConnectSpec {
                    auth_method: Some("m".into()),
                    auth_data: Some(vec![1]),
                    ..Default::default()
                };
                let ch = vec![Prop::str(P_AUTH_METHOD, "m"), Prop::bin(P_AUTH_DATA, &[2, 3])];
                sys.connect_with(
                    spec,
                    SPacket::Auth {
                        reason: 0x18,
                        props: ch.clone(),
                        form: 2,
                    },
                );
                if !sys.dead {
                    let a = AuthSpec {
                        reason: Some(0x18),
                        method: Some("m".into()),
                        data: Some(vec![4]),
                        user_props: vec![],
                    };
                    sys.events.push("Authorize".into());
                    sys.classes.push("Authorize".into());
                    sys.m.authorize(&a);
                    sys.w.cmd(CtxCmd::Authorize(a));
                    sys.sync();
                    let answer = match chz.choose(7) {
                        0 => SPacket::Auth {
                            reason: 0x18,
                            props: ch,
                            form: 2,
                        },
                        // the CONNACK that closes the exchange, with every property in three orders
                        // (Authentication Data ahead of the Authentication Method among them)
                        k @ 4..=6 => SPacket::Connack {
                            session_present: k == 5,
                            reason: 0,
                            props: full_connack_props(k - 4),
                        },
                        1 => SPacket::Connack {
                            session_present: false,
                            reason: 0,
                            props: vec![Prop::str(P_AUTH_METHOD, "m")],
                        },
                        2 => SPacket::Connack {
                            session_present: false,
                            reason: 0x87,
                            props: rich.clone(),
                        },
                        _ => SPacket::Connack {
                            session_present: false,
                            reason: 0x8c,
                            props: vec![],
                        },
                    };
                    let again = matches!(answer, SPacket::Auth { .. });
                    if !sys.dead {
                        sys.apply(Ev::Deliver(answer));
                    }
                    // a further round trip: the challenge is answered with another authorize(), which
                    // ends in a CONNACK (success / refusal) or in yet another AUTH
                    if again && !sys.dead {
                        let a = AuthSpec {
                            reason: Some(0x18),
                            method: Some("m".into()),
                            data: Some(vec![5, 6]),
                            user_props: vec![("round".into(), "2".into())],
                        };
                        sys.events.push("Authorize".into());
                        sys.classes.push("Authorize".into());
                        sys.m.authorize(&a);
                        sys.w.cmd(CtxCmd::Authorize(a));
                        sys.sync();
                        let last = match chz.choose(3) {
                            0 => SPacket::Connack { session_present: true, reason: 0, props: full_connack_props(2) },
                            1 => SPacket::Connack { session_present: false, reason: 0x86, props: vec![] },
                            _ => SPacket::Auth { reason: 0x18, props: vec![Prop::str(P_AUTH_METHOD, "m")], form: 2 },
                        };
                        if !sys.dead {
                            sys.apply(Ev::Deliver(last));
                        }
                    }
                }
            }
            2 => {
                // end-of-stream at every byte offset of the CONNACK
                let p = SPacket::Connack {
                    session_present: false,
                    reason: 0,
                    props: rich.clone(),
                };
                let bytes = p.encode();
                let cut = chz.choose(bytes.len());
                sys.events.push(format!("Connect; {} bytes of CONNACK; EOF", cut));
                sys.classes.push("Connect+EOF".into());
                sys.m.connect(ConnectSpec::default());
                sys.w.cmd(CtxCmd::Connect(ConnectSpec::default()));
                sys.sync();
                if !sys.dead {
                    sys.w.deliver(bytes[..cut].to_vec());
                    sys.sync();
                }
                if !sys.dead {
                    sys.apply(if chz.choose(2) == 0 { Ev::Eof } else { Ev::ReadErr });
                }
            }
            3 => {
                // write error while sending CONNECT
                sys.events.push("WriteError; Connect".into());
                sys.classes.push("Connect+WriteError".into());
                sys.w.write_error();
                sys.m.connect(ConnectSpec::default());
                sys.m.expected.clear();
                sys.m.expected.push(Expect::Ctx {
                    cmd: "connect",
                    res: ResPat::Exact("Err:SocketClosed".into()),
                });
                sys.m.ctx = CtxSt::Idle;
                sys.w.cmd(CtxCmd::Connect(ConnectSpec::default()));
                sys.sync();
            }
            _ => {
                // CONNACK delivered in two reads (cut at every offset)
                let p = SPacket::Connack {
                    session_present: true,
                    reason: 0,
                    props: rich.clone(),
                };
                let n = p.encode().len();
                let cut = 1 + chz.choose(n - 1);
                sys.events.push("Connect".into());
                sys.classes.push("Connect".into());
                sys.m.connect(ConnectSpec::default());
                sys.w.cmd(CtxCmd::Connect(ConnectSpec::default()));
                sys.sync();
                if !sys.dead {
                    sys.apply(Ev::DeliverSplit(p, cut));
                }
            }
        }
        sys.finish();
        sys.report(ex, &["connect-result", "connect-auth", "connect-socket-closed"]);
    })
}

fn disconnect_props(k: usize) -> (Vec<Prop>, u8) {
    match k {
        0 => (vec![], 0),
        1 => (vec![], 1),
        2 => (vec![], 2),
        _ => (
            vec![
                Prop::str(P_REASON_STRING, "bye"),
                Prop::str(P_SERVER_REFERENCE, "srv2"),
                Prop::user("k", "v"),
                Prop::user("k", "w"),
            ],
            2,
        ),
    }
}

fn server_disconnect(name: String, params: Value) -> Scenario {
    Box::new(move |chz, ex| {
        let mut sys = Sys::new("C13", &name, chz);
        sys.params = params.clone();
        // Request Problem Information unset / 1 / 0: with 0 a server leaves reason strings and user
        // properties out of acknowledgements - it may still put them into CONNACK and DISCONNECT
        sys.base_connect.request_problem_information = [None, Some(true), Some(false)][chz.choose(3)];
        sys.bring_up(if chz.choose(2) == 1 { vec![Prop::str(P_REASON_STRING, "welcome"), Prop::user("srv", "1")] } else { vec![] });
        let reason = DISCONNECT_REASONS[chz.choose(DISCONNECT_REASONS.len())];
        // (kinds 4 .. 10: a lone Reason String that makes the property section 125 .. 129, 16 382 and
        // 16 383 bytes long - where the Property Length and the Remaining Length change their widths)
        let kind = chz.choose(11);
        let (props, form) = if kind < 4 {
            disconnect_props(kind)
        } else {
            let pl = [125usize, 126, 127, 128, 129, 16382, 16383][kind - 4];
            (vec![Prop::str(P_REASON_STRING, &"r".repeat(pl - 3))], 2)
        };
        if form == 0 && reason != 0 {
            // remaining length 0 means reason 0
            sys.finish();
            return sys.report(ex, &[]);
        }
        // with an operation outstanding or idle
        if chz.choose(2) == 1 {
            sys.apply(Ev::Start(OpSpec::Publish(PublishSpec::simple(1, "t", b"x"))));
        }
        sys.apply(Ev::Deliver(SPacket::Disconnect {
            reason,
            props,
            form,
        }));
        sys.finish();
        sys.report(ex, &["server-disconnect"]);
    })
}

fn user_disconnect(name: String, params: Value) -> Scenario {
    Box::new(move |chz, ex| {
        let mut sys = Sys::new("C13", &name, chz);
        sys.params = params.clone();
        // a Maximum Packet Size may refuse the DISCONNECT (and the requests around it): a refused
        // DISCONNECT was not written, so it is no reason for run() to return
        let m = [None, Some(8u32), Some(12)][chz.choose(3)];
        // whatever the transport answers to a shutdown of the write half (should the client attempt
        // one): run() returns Ok(()) once the DISCONNECT has been written
        sys.w.wire.borrow_mut().close_mode = chz.choose(3) as u8;
        sys.bring_up(m.map(|m| vec![Prop::u32(P_MAXIMUM_PACKET_SIZE, m)]).unwrap_or_default());
        let reason = DISCONNECT_REASONS[chz.choose(DISCONNECT_REASONS.len())];
        let spec = DisconnectSpec {
            reason: Some(reason),
            session_expiry: [None, Some(5)][chz.choose(2)],
            reason_string: [None, Some("done".to_string())][chz.choose(2)].clone(),
            user_props: vec![],
        };
        match chz.choose(3) {
            0 => {}
            1 => sys.apply(Ev::Start(OpSpec::Publish(PublishSpec::simple(2, "t", b"x")))),
            _ => sys.apply(Ev::Start(OpSpec::Subscribe(SubscribeSpec::simple("s")))),
        }
        sys.apply(Ev::Start(OpSpec::Disconnect(spec)));
        // further operations after the DISCONNECT: nothing may reach the wire
        sys.apply(Ev::Start(OpSpec::Publish(PublishSpec::simple(0, "t", b"late"))));
        sys.apply(Ev::Start(OpSpec::Ping));
        sys.finish();
        sys.report(ex, &["user-disconnect"]);
    })
}

pub fn scenario(name: &str, params: &Value) -> Scenario {
    if name == "C13/resumed" {
        return super::c17::scenario_for("C13", name, params);
    }
    match name {
        "C13/connect" => return connect_scenario(name.to_string(), params.clone()),
        "C13/server-disconnect" => return server_disconnect(name.to_string(), params.clone()),
        "C13/user-disconnect" => return user_disconnect(name.to_string(), params.clone()),
        _ => {}
    }
    let depth = params["depth"].as_u64().unwrap_or(3) as usize;
    let params = params.clone();
    let name = name.to_string();
    Box::new(move |chz, ex| {
        let mut sys = Sys::new("C13", &name, chz);
        sys.params = params.clone();
        sys.m.check_client_acks = true;
        if let Some(k) = params["errkind"].as_u64() {
            let kind = super::c04::ERR_KINDS[k as usize % super::c04::ERR_KINDS.len()];
            sys.w.set_err_kinds(kind, kind);
            sys.events.push(format!("io::ErrorKind::{:?}", kind));
        }
        let errkind = params["errkind"].as_u64().is_some();
        let mps = params["m"].as_u64();
        sys.bring_up_fl(
            mps.map(|m| vec![Prop::u32(P_MAXIMUM_PACKET_SIZE, m as u32)]).unwrap_or_default(),
            params["flavour"].as_u64().unwrap_or(0),
        );
        let specs = std_ops();
        // a held context task lets requests queue up before a cause strikes
        let devs = |s: &Sys| sched_deviations(s, true, true);
        let evs = |s: &Sys| {
            let mut e = vec![];
            if s.m.ctx == CtxSt::Running {
                e.extend(start_events(s, &specs, 3, 1));
                e.extend(broker_acks(s, false, false));
                // a stream for "streams open"
                for i in 0..s.m.ops.len() {
                    if let (OpSpec::Subscribe(_), St::Done, Some(sb)) =
                        (&s.m.ops[i].spec, &s.m.ops[i].st, s.m.ops[i].sub)
                    {
                        if s.m.subs[sb].stream.is_none() && s.m.subs[sb].receiver_alive {
                            e.push(Ev::TakeStream(i));
                        }
                        if let (Some(id), Some(_)) = (s.m.subs[sb].sub_id, s.m.subs[sb].stream) {
                            e.push(Ev::Deliver(inbound(1, false, 50, &[id], "msg")));
                        }
                    }
                }
                // terminating causes
                for r in [0x00u8, 0x04, 0x80] {
                    if !s.m.master_alive {
                        break;
                    }
                    e.push(Ev::Start(OpSpec::Disconnect(DisconnectSpec {
                        reason: Some(r),
                        ..Default::default()
                    })));
                }
                if mps.is_some() && s.m.master_alive {
                    // larger than the Maximum Packet Size of this part: refused, not a cause
                    e.push(Ev::Start(OpSpec::Disconnect(DisconnectSpec {
                        reason: Some(0x04),
                        reason_string: Some("a reason string that does not fit".into()),
                        ..Default::default()
                    })));
                }
                e.push(Ev::Deliver(SPacket::Disconnect {
                    reason: 0,
                    props: vec![],
                    form: 1,
                }));
                e.push(Ev::Deliver(SPacket::Disconnect {
                    reason: 0x8b,
                    props: vec![Prop::str(P_REASON_STRING, "shutting down")],
                    form: 2,
                }));
                e.push(Ev::Eof);
                e.push(Ev::ReadErr);
                if errkind {
                    e.push(Ev::ReadErrOnce);
                }
                // an inbound message the client has to answer (a pending write error shows here)
                e.push(Ev::Deliver(inbound(1, false, 60, &[], "plain")));
                // end-of-stream in the middle of a packet
                e.push(Ev::PartialThenEof(inbound(0, false, 0, &[], "cut-short"), 3));
                if s.write_err_allowed() {
                    e.push(Ev::WriteErr);
                }
                if s.m.master_alive {
                    e.push(Ev::DropMaster);
                }
                // an abandoned operation (its handle clone goes with it)
                for i in 0..s.m.ops.len() {
                    let q2 = matches!(&s.m.ops[i].spec, OpSpec::Publish(p) if p.qos() == 2);
                    // (a QoS 2 publish abandoned before its PUBREC is the recorded finding of C15)
                    if s.m.ops[i].alive && s.m.ops[i].st != St::Done && !q2 {
                        e.push(Ev::Cancel(i));
                    }
                }
                // nothing can arrive after the transport has ended (the context may be held and
                // not have noticed yet)
                if s.m.eof || s.m.read_err {
                    e.retain(|x| !matches!(x, Ev::Deliver(_) | Ev::PartialThenEof(..) | Ev::Eof | Ev::ReadErr | Ev::ReadErrOnce));
                }
                e.push(Ev::Deliver(SPacket::Raw(vec![0x40, 0x02, 0x00, 0x00])));
                e.push(Ev::Deliver(SPacket::Raw(vec![0x00, 0x00])));
            } else {
                // after the end: operations fail, nothing is written
                let late = s.m.ops.iter().filter(|o| o.st == St::NotPolled || o.st == St::Done).count();
                if s.m.master_alive && late < s.m.ops.len() + 2 && s.m.ops.len() < 6 {
                    e.push(Ev::Start(OpSpec::Publish(PublishSpec::simple(1, "t", b"late"))));
                    e.push(Ev::Start(OpSpec::Ping));
                }
            }
            e
        };
        drive(&mut sys, chz, depth, &devs, &evs);
        sys.report(
            ex,
            &[
                "user-disconnect",
                "server-disconnect",
                "run-socket-closed",
                "run-handle-closed",
                "run-write-error",
                "undecodable",
            ],
        );
    })
}
