//! C14 - no operation or stream hangs once the context is gone.

use super::common::*;
use super::*;
use crate::model::*;
use crate::spec::*;
use crate::sys::*;
use pvcore::refcodec::{Prop, SPacket, P_AUTH_METHOD, P_REASON_STRING, P_SERVER_REFERENCE};

pub fn check(tier: Tier) -> Check {
    let mut parts = vec![];
    for k in 0..=2u32 {
        let d = match (tier, k) {
            (Tier::Quick, 0) => 5,
            (Tier::Quick, 1) => 4,
            (Tier::Quick, _) => 4,
            (Tier::Thorough, 0) => 7,
            (Tier::Thorough, 1) => 6,
            (Tier::Thorough, _) => 5,
        };
        parts.push(Part::new("C14/drop", json!({"depth": d, "r": 0}), k, tier.pick(40, 600)));
        // Receive Maximum 1: locally refused publishes are among the pending operations
        parts.push(Part::new("C14/drop", json!({"depth": d, "r": 1}), k, tier.pick(40, 600)));
    }
    parts.push(Part::new("C14/drop", json!({"depth": tier.pick(4, 6), "r": 1, "flavour": 1, "own_rm": 20}), 1, tier.pick(40, 600)));
    // a Maximum Packet Size in force: some requests are refused while the context lives; once it is
    // gone every request fails with ContextExited, whatever its size
    parts.push(Part::new("C14/drop", json!({"depth": tier.pick(4, 5), "r": 0, "m": 12}), 1, tier.pick(40, 600)));
    parts.push(Part::new("C14/drop", json!({"depth": tier.pick(5, 6), "r": 1, "m": 12}), 0, tier.pick(40, 600)));
    // two established subscriptions (one stream taken, one response kept), several buffered messages
    // persistent back-pressure on the write half (WriteBlock / WriteUnblock events)
    parts.push(Part::new("C14/drop", json!({"depth": tier.pick(4, 5), "r": 1, "wb": true}), 1, tier.pick(40, 600)));
    parts.push(Part::new("C14/drop", json!({"depth": tier.pick(3, 4), "r": 0, "wb": true}), 2, tier.pick(40, 600)));
    // identifier flavour: the counters start next to a boundary of their encodings (DESIGN 4)
    parts.push(Part::new("C14/drop", json!({"depth": tier.pick(4, 5), "r": 0, "ids": [65534, 127]}), 1, tier.pick(40, 600)));
    parts.push(Part::new("C14/streams", json!({"depth": tier.pick(5, 6)}), tier.pick(1, 2), tier.pick(40, 400)));
    // a long backlog (127 .. 1025 unread messages) in a stream that is only read after the drop
    parts.push(Part::new("C14/backlog", json!({}), 0, 60));
    // a stream across two connections of one Context, then the drop
    parts.push(Part::new("C14/reconnect-streams", json!({}), 0, 60));
    // more than 65 535 identifier-bearing operations after the drop
    parts.push(Part::new("C14/many-after-drop", json!({}), 0, 120));
    // requests made before a connection attempt that is refused; then the Context is dropped
    parts.push(Part::new("C14/refused", json!({}), 0, 60));
    // value flavour (DESIGN 4): the same exploration with requests / inbound messages of unusual content
    parts.push(Part::new("C14/drop", json!({"depth": tier.pick(4, 5), "r": 1, "vals": 1}), 1, tier.pick(40, 600)));
    parts.push(Part::new("C14/streams", json!({"depth": tier.pick(4, 5), "vals": 1}), tier.pick(0, 1), tier.pick(40, 400)));
    Check {
        also_rel: false,
        property: "C14",
        level: "model_checking",
        rule: "the Context is dropped at every point of every bounded history of operations and subscriptions (operations queued-but-unpolled via held tasks, awaiting acknowledgement, between the QoS 2 phases, acknowledged-but-unpolled; streams with and without buffered messages), then up to two more operations are started (in two parts under a Maximum Packet Size that some of them exceed); under the strict-waker executor every future must complete / every stream must drain and end; (C14/refused) seven requests made before a connection attempt that is refused with each of 21 reasons (with / without Server Reference, Reason String) or answered by an AUTH challenge, attempted once or twice, then the drop; endings by server DISCONNECT 0x93 / 0x97 / 0x8b; value flavour; non-trivial = ContextExited was delivered to a pending operation or a stream ended".into(),
        assumptions: vec!["'context gone' means the Context value has been dropped".into()],
        parts,
    }
}

fn streams(name: String, params: Value) -> Scenario {
    let depth = params["depth"].as_u64().unwrap_or(5) as usize;
    Box::new(move |chz, ex| {
        let mut sys = Sys::new("C14", &name, chz);
        sys.params = params.clone();
        sys.m.check_client_acks = false;
        sys.bring_up(vec![]);
        for i in 0..2 {
            sys.apply(Ev::Start(OpSpec::Subscribe(SubscribeSpec::simple(&format!("s/{}", i)))));
            if sys.dead {
                return sys.report(ex, &[]);
            }
            let ack = sys.ack_for(i, 0, "").unwrap();
            sys.apply(Ev::Deliver(ack));
        }
        sys.apply(Ev::TakeStream(0));
        if sys.dead {
            return sys.report(ex, &[]);
        }
        let ids: Vec<u32> = sys.m.subs.iter().map(|x| x.sub_id.unwrap()).collect();
        let devs = |s: &Sys| sched_deviations(s, false, true);
        let evs = |s: &Sys| {
            let mut e = vec![];
            if s.m.ctx == CtxSt::Running {
                let t = s.transitions;
                for id in &ids {
                    e.push(Ev::Deliver(inbound(0, false, 0, &[*id], &format!("m{}", t))));
                }
                e.push(Ev::Deliver(inbound(1, false, 21, &ids, &format!("b{}", t))));
                // the broker repeats a QoS 1 message (DUP = 1, same identifier): one more item
                e.push(Ev::Deliver(inbound(1, true, 21, &[ids[0]], &format!("d{}", t))));
                e.push(Ev::DropCtx);
            }
            if s.m.subs[1].stream.is_none() && s.m.subs[1].receiver_alive {
                e.push(Ev::TakeStream(1));
            }
            e
        };
        drive(&mut sys, chz, depth, &devs, &evs);
        sys.report(ex, &["stream-end"]);
    })
}

fn backlog(name: String, params: Value) -> Scenario {
    Box::new(move |chz, ex| {
        let n = [127usize, 128, 129, 300, 1025][chz.choose(5)];
        let taken_late = chz.choose(2) == 1;
        let mut sys = Sys::new("C14", &name, chz);
        sys.params = params.clone();
        sys.m.check_client_acks = false;
        sys.bring_up(vec![]);
        sys.apply(Ev::Start(OpSpec::Subscribe(SubscribeSpec::simple("s/backlog"))));
        if sys.dead {
            return sys.report(ex, &[]);
        }
        let ack = sys.ack_for(0, 0, "").unwrap();
        sys.apply(Ev::Deliver(ack));
        if !taken_late {
            sys.apply(Ev::TakeStream(0));
            sys.apply(Ev::Hold(crate::world::Tid::Stream(0)));
        }
        let id = sys.m.subs[0].sub_id.unwrap();
        for i in 0..n {
            sys.apply(Ev::Deliver(inbound(0, false, 0, &[id], &format!("b{}", i))));
            if sys.dead {
                return sys.report(ex, &[]);
            }
        }
        sys.apply(Ev::DropCtx);
        if taken_late {
            sys.apply(Ev::TakeStream(0));
        }
        sys.finish();
        sys.events = vec![format!("{} messages unread in a stream ({}), Context dropped, stream read", n, if taken_late { "stream() called after the drop" } else { "stream held back" })];
        sys.report(ex, &["stream-end"]);
    })
}

/// Requests made before connect(); the connection attempt is refused (every refusing reason, with and
/// without Server Reference / Reason String), fails, or is answered by an AUTH challenge; the Context is
/// dropped (or connected again first, to be refused again). Until the drop the requests stay pending -
/// nothing has happened that completes them -, afterwards every one of them ends with ContextExited.
fn refused(name: String, params: Value) -> Scenario {
    Box::new(move |chz, ex| {
        let reasons: [u8; 22] = [0x80, 0x81, 0x82, 0x83, 0x84, 0x85, 0x86, 0x87, 0x88, 0x89, 0x8a, 0x8c, 0x90, 0x95, 0x97, 0x99, 0x9a, 0x9b, 0x9c, 0x9d, 0x9f, 0x00];
        let reason = reasons[chz.choose(reasons.len())];
        let rich = chz.choose(2) == 1;
        let how = chz.choose(3);
        let mut sys = Sys::new("C14", &name, chz);
        sys.params = params.clone();
        sys.m.check_client_acks = false;
        sys.auto_exit = false;
        let specs = [
            OpSpec::Publish(PublishSpec::simple(0, "t/early", b"e0")),
            OpSpec::Publish(PublishSpec::simple(1, "t/early", b"e1")),
            OpSpec::Publish(PublishSpec::simple(2, "t/early", b"e2")),
            OpSpec::Subscribe(SubscribeSpec::simple("s/early")),
            OpSpec::Unsubscribe(UnsubscribeSpec::simple("s/early")),
            OpSpec::Ping,
            OpSpec::Disconnect(DisconnectSpec::default()),
        ];
        for sp in specs.iter() {
            sys.apply(Ev::Start(sp.clone()));
        }
        let props = if rich {
            vec![Prop::str(P_REASON_STRING, "go elsewhere"), Prop::str(P_SERVER_REFERENCE, "other.example:1883"), Prop::user("k", "v")]
        } else {
            vec![]
        };
        let attempts = if how == 2 { 2 } else { 1 };
        for a in 0..attempts {
            if sys.dead {
                break;
            }
            if a > 0 {
                sys.events.push("Reconnect".into());
                sys.w.new_wire();
                sys.m.new_wire();
            }
            if reason == 0 {
                // (an AUTH challenge instead of a CONNACK: connect() returns, nothing is served yet)
                sys.connect_with(
                    ConnectSpec { auth_method: Some("m".into()), ..Default::default() },
                    SPacket::Auth { reason: 0x18, props: vec![Prop::str(P_AUTH_METHOD, "m")], form: 2 },
                );
            } else {
                sys.connect_with(ConnectSpec::default(), SPacket::Connack { session_present: false, reason, props: props.clone() });
            }
        }
        if how == 1 && !sys.dead {
            // one more request after the refusal
            sys.apply(Ev::Start(OpSpec::Publish(PublishSpec::simple(1, "t/late", b"l1"))));
        }
        sys.apply(Ev::DropCtx);
        sys.apply(Ev::Start(OpSpec::Ping));
        sys.finish();
        sys.report(ex, &["context-exited-delivered"]);
    })
}

/// After the drop 65 600 more identifier-bearing operations are started (on two clones): each fails
/// with ContextExited at once - also the 65 536th and later ones.
fn many_after_drop(name: String, params: Value) -> Scenario {
    Box::new(move |chz, ex| {
        let pending_first = chz.choose(2) == 1;
        let mut sys = Sys::new("C14", &name, chz);
        sys.params = params.clone();
        sys.m.check_client_acks = false;
        sys.bring_up(vec![]);
        if pending_first {
            sys.apply(Ev::Start(OpSpec::Publish(PublishSpec::simple(1, "t/p", b"pending at the drop"))));
        }
        sys.apply(Ev::DropCtx);
        let specs = [
            OpSpec::Publish(PublishSpec::simple(1, "t", b"a")),
            OpSpec::Publish(PublishSpec::simple(2, "t", b"b")),
            OpSpec::Subscribe(SubscribeSpec::simple("s")),
            OpSpec::Unsubscribe(UnsubscribeSpec::simple("s")),
        ];
        for i in 0..65_600usize {
            if sys.dead {
                break;
            }
            let sp = specs[i % 4].clone();
            if i % 2 == 0 { sys.apply(Ev::StartW(sp)) } else { sys.apply(Ev::Start(sp)) }
        }
        sys.finish();
        sys.events = vec!["Context dropped, then 65 600 identifier-bearing operations".into()];
        sys.report(ex, &["op-after-context-gone"]);
    })
}

/// A stream that lives through two connections of one Context (the first ended by the server's graceful
/// DISCONNECT, by end-of-stream or by the user's DISCONNECT; no resume): it yields what it received on
/// both, and ends only when the Context is gone.
fn reconnect_streams(name: String, params: Value) -> Scenario {
    Box::new(move |chz, ex| {
        let ending = chz.choose(3);
        let expiry = [None, Some(100u32)][chz.choose(2)];
        let read_between = chz.choose(2) == 1;
        let mut sys = Sys::new("C14", &name, chz);
        sys.params = params.clone();
        sys.m.check_client_acks = false;
        sys.auto_exit = false;
        sys.base_connect.session_expiry = expiry;
        sys.bring_up(vec![]);
        sys.apply(Ev::Start(OpSpec::Subscribe(SubscribeSpec::simple("s/a"))));
        if sys.dead {
            return sys.report(ex, &[]);
        }
        let ack = sys.ack_for(0, 0, "").unwrap();
        sys.apply(Ev::Deliver(ack));
        sys.apply(Ev::TakeStream(0));
        let sid = sys.m.subs[0].sub_id.unwrap();
        if !read_between {
            sys.apply(Ev::Hold(crate::world::Tid::Stream(0)));
        }
        sys.apply(Ev::Deliver(inbound(0, false, 0, &[sid], "a")));
        match ending {
            0 => sys.apply(Ev::Deliver(SPacket::Disconnect { reason: 0, props: vec![], form: 0 })),
            1 => sys.apply(Ev::Eof),
            _ => sys.apply(Ev::Start(OpSpec::Disconnect(DisconnectSpec::default()))),
        }
        if sys.dead {
            return sys.report(ex, &[]);
        }
        sys.events.push("Reconnect".into());
        sys.classes.push("Reconnect".into());
        sys.w.new_wire();
        sys.m.new_wire();
        let spec = sys.base_connect.clone();
        sys.connect_with(spec, SPacket::Connack { session_present: false, reason: 0, props: vec![] });
        if !sys.dead {
            sys.start_run();
        }
        sys.apply(Ev::Deliver(inbound(0, false, 0, &[sid], "b")));
        sys.apply(Ev::Deliver(inbound(1, false, 5, &[sid], "c")));
        sys.apply(Ev::DropCtx);
        sys.finish();
        sys.report(ex, &["stream-end"]);
    })
}

pub fn scenario(name: &str, params: &Value) -> Scenario {
    if name == "C14/reconnect-streams" {
        return reconnect_streams(name.to_string(), params.clone());
    }
    if name == "C14/many-after-drop" {
        return many_after_drop(name.to_string(), params.clone());
    }
    if name == "C14/refused" {
        return refused(name.to_string(), params.clone());
    }
    if name == "C14/backlog" {
        return backlog(name.to_string(), params.clone());
    }
    if name == "C14/streams" {
        return streams(name.to_string(), params.clone());
    }
    let depth = params["depth"].as_u64().unwrap_or(4) as usize;
    let r = params["r"].as_u64().unwrap_or(0) as u16;
    let params = params.clone();
    let name = name.to_string();
    Box::new(move |chz, ex| {
        let mut sys = Sys::new("C14", &name, chz);
        sys.params = params.clone();
        sys.m.check_client_acks = false;
        let mut cprops = if r == 0 { vec![] } else { receive_max(r) };
        if let Some(m) = params["m"].as_u64() {
            cprops.push(pvcore::refcodec::Prop::u32(pvcore::refcodec::P_MAXIMUM_PACKET_SIZE, m as u32));
        }
        sys.bring_up_fl(cprops, params["flavour"].as_u64().unwrap_or(0));
        let mut specs = std_ops();
        // a user DISCONNECT that may still be queued (held context) when the context goes away
        specs.push(OpSpec::Disconnect(DisconnectSpec::default()));
        specs.push(OpSpec::Publish(PublishSpec::simple(0, "t/z", b"zero")));
        if r != 0 {
            specs.push(OpSpec::Publish(PublishSpec::simple(1, "t/c", b"three")));
        }
        let devs = |s: &Sys| {
            let mut d = sched_deviations(s, true, true);
            if s.m.ctx == CtxSt::Running && outstanding(&s.m).len() < 3 {
                d.push(Ev::StartHeld(OpSpec::Publish(PublishSpec::simple(1, "t/h", b"held"))));
            }
            d
        };
        let evs = |s: &Sys| {
            let mut e = vec![];
            if s.m.ctx == CtxSt::Running {
                e.extend(start_events(s, &specs, 3, if r != 0 { 3 } else { 1 }));
                e.extend(broker_acks(s, true, false));
                for i in 0..s.m.ops.len() {
                    if let (OpSpec::Subscribe(_), St::Done, Some(sb)) =
                        (&s.m.ops[i].spec, &s.m.ops[i].st, s.m.ops[i].sub)
                    {
                        if s.m.subs[sb].stream.is_none() && s.m.subs[sb].receiver_alive {
                            e.push(Ev::TakeStream(i));
                        }
                    }
                }
                for sb in &s.m.subs {
                    if let Some(id) = sb.sub_id {
                        if sb.receiver_alive {
                            e.push(Ev::Deliver(inbound(0, false, 0, &[id], &format!("m{}", s.transitions))));
                        }
                    }
                }
                e.push(Ev::DropCtx);
                // the server ends the connection (run() returns, the Context is dropped): whatever
                // its reason, operations still pending are told that the context is gone
                for r in [0x93u8, 0x97, 0x8b] {
                    e.push(Ev::Deliver(pvcore::refcodec::SPacket::Disconnect { reason: r, props: vec![], form: 1 }));
                }
            } else {
                let after = s.m.ops.iter().filter(|o| matches!(o.st, St::NotPolled)).count();
                if after == 0 && s.m.ops.len() < 8 {
                    e.push(Ev::Start(OpSpec::Publish(PublishSpec::simple(1, "t", b"late"))));
                    e.push(Ev::Start(OpSpec::Subscribe(SubscribeSpec::simple("late"))));
                    e.push(Ev::Start(OpSpec::Ping));
                }
                // a stream taken only after the context is gone
                for i in 0..s.m.ops.len() {
                    if let (OpSpec::Subscribe(_), St::Done, Some(sb)) =
                        (&s.m.ops[i].spec, &s.m.ops[i].st, s.m.ops[i].sub)
                    {
                        if s.m.subs[sb].stream.is_none() && s.m.subs[sb].receiver_alive {
                            e.push(Ev::TakeStream(i));
                        }
                    }
                }
            }
            e
        };
        drive(&mut sys, chz, depth, &devs, &evs);
        sys.report(ex, &["context-exited-delivered", "stream-end", "op-after-context-gone"]);
    })
}
