//! C07 - inbound messages reach exactly their subscription's stream(s), in order, intact.

use super::common::*;
use super::*;
use crate::model::*;
use crate::spec::*;
use crate::sys::*;
use pvcore::refcodec::*;

pub fn check(tier: Tier) -> Check {
    let mut parts = vec![];
    for k in 0..=tier.pick(1, 2) {
        let d = match (tier, k) {
            (Tier::Quick, 0) => 6,
            (Tier::Quick, _) => 5,
            (Tier::Thorough, 0) => 8,
            (Tier::Thorough, 1) => 7,
            (Tier::Thorough, _) => 6,
        };
        parts.push(Part::new("C07/dispatch", json!({"depth": d}), k, tier.pick(40, 500)));
    }
    parts.push(Part::new("C07/fields", json!({}), 0, tier.pick(20, 60)));
    // QoS 2 messages over two identifiers that are released (PUBREL) in any order and used again
    parts.push(Part::new("C07/dispatch", json!({"depth": tier.pick(7, 8), "rel": true}), 0, tier.pick(40, 400)));
    parts.push(Part::new("C07/dispatch", json!({"depth": tier.pick(5, 6), "flavour": 1, "own_rm": 20}), 0, tier.pick(30, 400)));
    // identifier flavour: the counters start next to a boundary of their encodings (DESIGN 4)
    parts.push(Part::new("C07/dispatch", json!({"depth": tier.pick(5, 6), "ids": [255, 127]}), 0, tier.pick(30, 400)));
    parts.push(Part::new("C07/dispatch", json!({"depth": tier.pick(5, 6), "ids": [65535, 16383]}), 0, tier.pick(30, 400)));
    parts.push(Part::new("C07/dispatch", json!({"depth": tier.pick(4, 5), "ids": [32767, 2097151]}), 0, tier.pick(30, 400)));
    // two subscriptions whose identifiers differ in exactly one bit (all 28)
    parts.push(Part::new("C07/bits", json!({}), 0, 120));
    // four established subscriptions: stream drops / lag in every order, messages to every one
    parts.push(Part::new("C07/many", json!({"subs": 4, "depth": tier.pick(5, 6)}), tier.pick(0, 1), tier.pick(30, 400)));
    // a rolling population: streams dropped and new subscriptions made again and again, so that the
    // client's bookkeeping shrinks, grows and wraps around; every live stream gets its messages
    // a stream that lags 70 000 messages behind (and a response whose stream() is called that late)
    parts.push(Part::new("C07/deep-backlog", json!({"n": 70_000}), 0, 120));
    parts.push(Part::new("C07/rolling", json!({"rounds": tier.pick(14, 40)}), 0, 120));
    // value flavour (DESIGN 4): the same exploration with requests / inbound messages of unusual content
    parts.push(Part::new("C07/dispatch", json!({"depth": tier.pick(5, 6), "vals": 1}), tier.pick(0, 1), tier.pick(30, 400)));
    parts.push(Part::new("C07/dispatch", json!({"depth": tier.pick(5, 6), "vals": 1, "flavour": 1, "own_rm": 20}), 0, tier.pick(30, 400)));
    Check {
        also_rel: false,
        property: "C07",
        level: "model_checking",
        rule: "all event sequences over <=2 subscribe calls, SUBACKs, stream() calls, inbound PUBLISH (QoS 0/1/2 x subscription identifier absent / first / second / unknown / both / repeated adjacently and non-adjacently / mixed with an unknown one), stream drops, an unsubscribe, with lagging (held) and spuriously polled streams as deviations; plus two subscriptions whose identifiers differ in exactly one bit (bit 0..27, two base values) with messages to each, to both and to an unregistered neighbour; plus four established subscriptions with stream drops and messages to each in every order, a rolling population (windows of 1..9 live subscriptions; per round one stream dropped - oldest, newest or middle -, a new subscription made, messages to the newest, to each, to all and to the dropped one) over 14 (thorough: 40) rounds; and a sweep over message field combinations; QoS 2 messages over two identifiers released in any order and reused at once; 70 000 unread messages; value flavour (retained / big / alias-only inbound messages, subscribes with every option); non-trivial = at least one message was dispatched to a stream".into(),
        assumptions: vec![
            "acknowledgements written by the client are not compared here (C08)".into(),
            "QoS 2 identifiers are not repeated here (C09)".into(),
        ],
        parts,
    }
}

fn fields_scenario(name: String, params: Value) -> Scenario {
    Box::new(move |chz, ex| {
        let mut sys = Sys::new("C07", &name, chz);
        sys.params = params.clone();
        sys.m.check_client_acks = false;
        // (the broker uses topic alias 65535: the client must have allowed that many)
        sys.base_connect.topic_alias_maximum = Some(65535);
        sys.bring_up(vec![]);
        sys.apply(Ev::Start(OpSpec::Subscribe(SubscribeSpec::simple("s/a"))));
        if sys.dead {
            return sys.report(ex, &[]);
        }
        let ack = sys.ack_for(0, 0, "").unwrap();
        sys.apply(Ev::Deliver(ack));
        sys.apply(Ev::TakeStream(0));
        if sys.dead {
            return sys.report(ex, &[]);
        }
        let sid = sys.m.subs[0].sub_id.unwrap();
        // every subset of the optional PUBLISH properties x flags
        let qos = chz.choose(3) as u8;
        let dup = qos > 0 && chz.choose(2) == 1;
        let retain = chz.choose(2) == 1;
        let mask = chz.choose(64);
        let nuser = chz.choose(4);
        let payload_kind = chz.choose(3);
        let mut props = vec![Prop::var(P_SUBSCRIPTION_ID, sid)];
        if mask & 1 != 0 {
            props.push(Prop::byte(P_PAYLOAD_FORMAT, 1));
        }
        if mask & 2 != 0 {
            props.push(Prop::u16(P_TOPIC_ALIAS, 65535));
        }
        if mask & 4 != 0 {
            props.push(Prop::u32(P_MESSAGE_EXPIRY, u32::MAX));
        }
        if mask & 8 != 0 {
            props.push(Prop::bin(P_CORRELATION_DATA, &[0, 255, 1]));
        }
        if mask & 16 != 0 {
            props.push(Prop::str(P_RESPONSE_TOPIC, "re/ply"));
        }
        if mask & 32 != 0 {
            props.push(Prop::str(P_CONTENT_TYPE, "text/\u{00e9}"));
        }
        if nuser == 3 {
            // names in no particular order, one repeated non-adjacently, case variants: the stream
            // item must expose the pairs in wire order
            for (k, v) in [("trace", "1"), ("origin", "2"), ("trace", "3"), ("Origin", "4"), ("", "5"), ("trace", "1"), ("", "5")] {
                props.push(Prop::user(k, v));
            }
        } else {
            for i in 0..nuser {
                props.push(Prop::user("k", &format!("v{}", i)));
            }
        }
        let payload = match payload_kind {
            0 => vec![],
            1 => b"x".to_vec(),
            // (with Payload Format Indicator 1 the payload is text: a receiver may validate it)
            _ => vec![if mask & 1 != 0 { b'b' } else { 0xab }; 700],
        };
        sys.apply(Ev::Deliver(SPacket::Publish {
            dup,
            qos,
            retain,
            topic: "in/\u{4e2d}".into(),
            pid: if qos > 0 { Some(9) } else { None },
            props,
            payload,
        }));
        sys.finish();
        sys.report(ex, &["message-dispatched"]);
    })
}

fn many(name: String, params: Value) -> Scenario {
    let n = params["subs"].as_u64().unwrap_or(4) as usize;
    let depth = params["depth"].as_u64().unwrap_or(4) as usize;
    Box::new(move |chz, ex| {
        let mut sys = Sys::new("C07", &name, chz);
        sys.params = params.clone();
        sys.m.check_client_acks = false;
        sys.bring_up(vec![]);
        for i in 0..n {
            sys.apply(Ev::Start(OpSpec::Subscribe(SubscribeSpec::simple(&format!("s/{}", i)))));
            if sys.dead {
                return sys.report(ex, &[]);
            }
            let ack = sys.ack_for(i, 0, "").unwrap();
            sys.apply(Ev::Deliver(ack));
            sys.apply(Ev::TakeStream(i));
        }
        if sys.dead {
            return sys.report(ex, &[]);
        }
        let ids: Vec<u32> = sys.m.subs.iter().map(|x| x.sub_id.unwrap()).collect();
        let devs = |s: &Sys| sched_deviations(s, false, true);
        let evs = |s: &Sys| {
            let mut e = vec![];
            for i in 0..s.m.streams.len() {
                if s.m.streams[i].alive {
                    e.push(Ev::DropStream(i));
                }
            }
            let t = s.transitions;
            for id in &ids {
                e.push(Ev::Deliver(inbound(0, false, 0, &[*id], &format!("m{}", t))));
            }
            e.push(Ev::Deliver(inbound(1, false, 30, &[ids[0], ids[ids.len() - 1]], &format!("b{}", t))));
            // one message for every subscription, in registration order and reversed (several of the
            // streams may be gone by then, noticed or not)
            e.push(Ev::Deliver(inbound(0, false, 0, &ids, &format!("all{}", t))));
            let rev: Vec<u32> = ids.iter().rev().copied().collect();
            e.push(Ev::Deliver(inbound(0, false, 0, &rev, &format!("rev{}", t))));
            // a long list: 40 identifiers nobody holds (any more), the live ones at its very end
            let mut long: Vec<u32> = (1000..1040).collect();
            long.extend(ids.iter().copied());
            e.push(Ev::Deliver(inbound(0, false, 0, &long, &format!("long{}", t))));
            e
        };
        drive(&mut sys, chz, depth, &devs, &evs);
        sys.report(ex, &["message-dispatched"]);
    })
}

/// A window of w live subscriptions; every round: drop one stream (the oldest / the newest / one in
/// the middle), a message naming the dropped and all live ones, a new subscription (SUBACK, stream),
/// a message for the newest alone, one for each live one, one for all.
pub fn rolling(prop: &'static str, name: String, params: Value) -> Scenario {
    let rounds = params["rounds"].as_u64().unwrap_or(14) as usize;
    Box::new(move |chz, ex| {
        let w = [1usize, 2, 3, 4, 5, 7, 8, 9][chz.choose(8)];
        let victim = chz.choose(3);
        let removal_seen = chz.choose(2) == 1;
        let mut sys = Sys::new(prop, &name, chz);
        sys.params = params.clone();
        sys.m.check_client_acks = prop == "C08";
        sys.bring_up(vec![]);
        // (stream index, subscription identifier) of the live ones, oldest first
        let mut live: Vec<(usize, u32)> = vec![];
        let mut subscribe = |sys: &mut Sys, live: &mut Vec<(usize, u32)>| {
            let op = sys.m.ops.len();
            sys.apply(Ev::Start(OpSpec::Subscribe(SubscribeSpec::simple(&format!("s/{}", op)))));
            if sys.dead {
                return;
            }
            let ack = sys.ack_for(op, 0, "").unwrap();
            sys.apply(Ev::Deliver(ack));
            sys.apply(Ev::TakeStream(op));
            if sys.dead {
                return;
            }
            let sb = sys.m.ops[op].sub.unwrap();
            live.push((sys.m.subs[sb].stream.unwrap(), sys.m.subs[sb].sub_id.unwrap()));
        };
        for _ in 0..w {
            subscribe(&mut sys, &mut live);
        }
        for round in 0..rounds {
            if sys.dead {
                break;
            }
            let k = match victim {
                0 => 0,
                1 => live.len() - 1,
                _ => live.len() / 2,
            };
            let (st, gone) = live.remove(k);
            sys.apply(Ev::DropStream(st));
            if removal_seen {
                // the client notices the dead stream when a message names it
                let mut ids = vec![gone];
                ids.extend(live.iter().map(|x| x.1));
                sys.apply(Ev::Deliver(inbound(0, false, 0, &ids, &format!("g{}", round))));
            }
            if params["abandon"].as_bool().unwrap_or(false) && !sys.dead {
                // (C15) a subscribe whose future is dropped before its SUBACK: its registration is
                // retired by the next message that names it; the late SUBACK is absorbed
                let op = sys.m.ops.len();
                sys.apply(Ev::Start(OpSpec::Subscribe(SubscribeSpec::simple(&format!("s/abandoned{}", op)))));
                sys.apply(Ev::Cancel(op));
                let id = sys.m.ops.get(op).and_then(|o| o.sub).and_then(|sb| sys.m.subs[sb].sub_id);
                if let (Some(id), false) = (id, sys.dead) {
                    if round % 2 == 0 {
                        let mut ids = vec![id];
                        ids.extend(live.iter().map(|x| x.1));
                        sys.apply(Ev::Deliver(inbound(0, false, 0, &ids, &format!("ab{}", round))));
                    }
                    if let Some(a) = sys.ack_for(op, 0, "") {
                        sys.apply(Ev::Deliver(a));
                    }
                }
            }
            subscribe(&mut sys, &mut live);
            if sys.dead {
                break;
            }
            let newest = live[live.len() - 1].1;
            sys.apply(Ev::Deliver(inbound(1, false, 50, &[newest], &format!("n{}", round))));
            for (_, id) in live.clone() {
                sys.apply(Ev::Deliver(inbound(0, false, 0, &[id], &format!("e{}-{}", round, id))));
            }
            let all: Vec<u32> = live.iter().map(|x| x.1).collect();
            sys.apply(Ev::Deliver(inbound(0, false, 0, &all, &format!("a{}", round))));
            // (one message for every live subscription, to be acknowledged: QoS 1 / QoS 2 by turns)
            if round % 2 == 0 {
                sys.apply(Ev::Deliver(inbound(1, false, 60, &all, &format!("q{}", round))));
            } else {
                sys.apply(Ev::Deliver(inbound(2, false, 61, &all, &format!("q{}", round))));
                sys.apply(Ev::Deliver(pubrel_in(61)));
            }
            sys.apply(Ev::Deliver(inbound(0, false, 0, &[gone], &format!("late{}", round))));
        }
        sys.finish();
        sys.events = vec![format!("rolling window of {} subscriptions, {} rounds, victim rule {}, removal noticed early: {}", w, rounds, victim, removal_seen)];
        sys.report(ex, &["message-dispatched"]);
    })
}

/// Two subscriptions whose identifiers differ in exactly one bit: the lookup must use all 28 bits.
fn bits(name: String, params: Value) -> Scenario {
    Box::new(move |chz, ex| {
        let k = chz.choose(28) as u32;
        let base = [1u32, 0x0555_5555][chz.choose(2)];
        let other = base ^ (1 << k);
        let swap = chz.choose(2) == 1;
        let mut sys = Sys::new("C07", &name, chz);
        sys.params = params.clone();
        sys.m.check_client_acks = false;
        sys.bring_up(vec![]);
        if other == 0 || other > 268_435_455 {
            return sys.report(ex, &[]);
        }
        let (first, second) = if swap { (other, base) } else { (base, other) };
        for (i, id) in [first, second].into_iter().enumerate() {
            sys.w.handle().verif_set_ids(10 + i as u16, id);
            sys.events.push(format!("PresetSubId({})", id));
            sys.apply(Ev::Start(OpSpec::Subscribe(SubscribeSpec::simple(&format!("s/{}", i)))));
            if sys.dead {
                return sys.report(ex, &[]);
            }
            let ack = sys.ack_for(i, 0, "").unwrap();
            sys.apply(Ev::Deliver(ack));
            sys.apply(Ev::TakeStream(i));
        }
        // a third identifier that is not registered: one more bit away from the first
        let stranger = {
            let x = first ^ (1 << ((k + 1) % 28));
            if x == 0 || x == second || x > 268_435_455 { first ^ (1 << ((k + 2) % 28)) } else { x }
        };
        sys.apply(Ev::Deliver(inbound(0, false, 0, &[second], "to-second")));
        sys.apply(Ev::Deliver(inbound(1, false, 7, &[first], "to-first")));
        sys.apply(Ev::Deliver(inbound(0, false, 0, &[first, second], "to-both")));
        sys.apply(Ev::Deliver(inbound(0, false, 0, &[stranger], "to-nobody")));
        sys.apply(Ev::Deliver(inbound(2, false, 8, &[second, stranger, first], "to-both-and-nobody")));
        sys.apply(Ev::DropStream(0));
        sys.apply(Ev::Deliver(inbound(0, false, 0, &[first], "to-dropped")));
        sys.apply(Ev::Deliver(inbound(0, false, 0, &[second], "to-second-again")));
        sys.finish();
        sys.report(ex, &["message-dispatched"]);
    })
}

/// A stream that lags n messages behind (held back, or stream() called that late); behind the backlog
/// QoS 1 and QoS 2 messages for it arrive - each is acknowledged (C08) and yielded once the stream reads.
pub fn deep_backlog(prop: &'static str, name: String, params: Value) -> Scenario {
    let n = params["n"].as_u64().unwrap_or(70_000) as usize;
    Box::new(move |chz, ex| {
        let late = chz.choose(2) == 1;
        let mut sys = Sys::new(prop, &name, chz);
        sys.params = params.clone();
        sys.m.check_client_acks = prop == "C08";
        sys.bring_up(vec![]);
        for i in 0..2 {
            sys.apply(Ev::Start(OpSpec::Subscribe(SubscribeSpec::simple(&format!("s/{}", i)))));
            if sys.dead {
                return sys.report(ex, &[]);
            }
            let ack = sys.ack_for(i, 0, "").unwrap();
            sys.apply(Ev::Deliver(ack));
        }
        sys.apply(Ev::TakeStream(1));
        if !late {
            sys.apply(Ev::TakeStream(0));
            sys.apply(Ev::Hold(crate::world::Tid::Stream(1)));
        }
        let a = sys.m.subs[0].sub_id.unwrap();
        let b = sys.m.subs[1].sub_id.unwrap();
        for i in 0..n {
            sys.apply(Ev::Deliver(inbound(0, false, 0, &[a], &format!("{}", i))));
            if i % 1000 == 0 {
                sys.apply(Ev::Deliver(inbound(0, false, 0, &[b], &format!("other{}", i))));
            }
            if sys.dead {
                return sys.report(ex, &[]);
            }
        }
        // behind the backlog: messages that must be acknowledged
        sys.apply(Ev::Deliver(inbound(1, false, 9, &[a], "q1-behind")));
        sys.apply(Ev::Deliver(inbound(2, false, 8, &[a], "q2-behind")));
        sys.apply(Ev::Deliver(pubrel_in(8)));
        sys.apply(Ev::Deliver(inbound(1, false, 10, &[a, b], "q1-both")));
        if late {
            sys.apply(Ev::TakeStream(0));
        }
        sys.apply(Ev::Deliver(inbound(0, false, 0, &[a, b], "after")));
        sys.finish();
        sys.events = vec![format!("{} messages unread in one stream ({}), QoS 1 / QoS 2 messages behind them, then it is read", n, if late { "stream() called late" } else { "stream held back" })];
        sys.report(ex, &["message-dispatched"]);
    })
}

pub fn scenario(name: &str, params: &Value) -> Scenario {
    if name == "C07/deep-backlog" {
        return deep_backlog("C07", name.to_string(), params.clone());
    }
    if false {
        let n = params["n"].as_u64().unwrap_or(70_000) as usize;
        let name = name.to_string();
        let params = params.clone();
        return Box::new(move |chz, ex| {
            let late = chz.choose(2) == 1;
            let mut sys = Sys::new("C07", &name, chz);
            sys.params = params.clone();
            sys.m.check_client_acks = false;
            sys.bring_up(vec![]);
            for i in 0..2 {
                sys.apply(Ev::Start(OpSpec::Subscribe(SubscribeSpec::simple(&format!("s/{}", i)))));
                if sys.dead {
                    return sys.report(ex, &[]);
                }
                let ack = sys.ack_for(i, 0, "").unwrap();
                sys.apply(Ev::Deliver(ack));
            }
            sys.apply(Ev::TakeStream(1));
            if !late {
                sys.apply(Ev::TakeStream(0));
                sys.apply(Ev::Hold(crate::world::Tid::Stream(1)));
            }
            let a = sys.m.subs[0].sub_id.unwrap();
            let b = sys.m.subs[1].sub_id.unwrap();
            for i in 0..n {
                sys.apply(Ev::Deliver(inbound(0, false, 0, &[a], &format!("{}", i))));
                if i % 1000 == 0 {
                    sys.apply(Ev::Deliver(inbound(0, false, 0, &[b], &format!("other{}", i))));
                }
                if sys.dead {
                    return sys.report(ex, &[]);
                }
            }
            if late {
                sys.apply(Ev::TakeStream(0));
            }
            sys.apply(Ev::Deliver(inbound(0, false, 0, &[a, b], "after")));
            sys.finish();
            sys.events = vec![format!("{} messages unread in one stream ({}), then it is read", n, if late { "stream() called late" } else { "stream held back" })];
            sys.report(ex, &["message-dispatched"]);
        });
    }
    if name == "C07/rolling" {
        return rolling("C07", name.to_string(), params.clone());
    }
    if name == "C07/bits" {
        return bits(name.to_string(), params.clone());
    }
    if name == "C07/many" {
        return many(name.to_string(), params.clone());
    }
    if name == "C07/fields" {
        return fields_scenario(name.to_string(), params.clone());
    }
    let depth = params["depth"].as_u64().unwrap_or(5) as usize;
    let params = params.clone();
    let name = name.to_string();
    Box::new(move |chz, ex| {
        let mut sys = Sys::new("C07", &name, chz);
        sys.params = params.clone();
        sys.m.check_client_acks = false;
        sys.bring_up_fl(vec![], params["flavour"].as_u64().unwrap_or(0));
        let devs = |s: &Sys| sched_deviations(s, false, true);
        let evs = |s: &Sys| {
            let mut e = vec![];
            let nsub = s
                .m
                .ops
                .iter()
                .filter(|o| matches!(o.spec, OpSpec::Subscribe(_)))
                .count();
            if nsub < 2 {
                e.push(Ev::Start(OpSpec::Subscribe(if nsub == 0 {
                    SubscribeSpec::simple("s/a")
                } else {
                    SubscribeSpec {
                        filters: vec![FilterSpec::plain("s/b"), FilterSpec::plain("s/c/#")],
                        user_props: vec![],
                    }
                })));
            }
            let nunsub = s
                .m
                .ops
                .iter()
                .filter(|o| matches!(o.spec, OpSpec::Unsubscribe(_)))
                .count();
            if nsub > 0 && nunsub == 0 {
                e.push(Ev::Start(OpSpec::Unsubscribe(UnsubscribeSpec::simple("s/a"))));
            }
            e.extend(broker_acks(s, false, false));
            // SUBACKs that refuse every filter, or all but the first: the stream of that call must
            // work all the same (a broker still forwards what matches the granted filter; and the
            // property does not let a refusal end or detach a stream)
            for i in 0..s.m.ops.len() {
                if !matches!(s.m.ops[i].spec, OpSpec::Subscribe(_)) {
                    continue;
                }
                if let Some(SPacket::Suback { pid, props, reasons }) = s.ack_for(i, 0x80, "") {
                    let mut partial = reasons.clone();
                    partial[0] = 0x01;
                    for r in partial.iter_mut().skip(1) {
                        *r = 0x87;
                    }
                    if partial.len() > 1 {
                        e.push(Ev::Deliver(SPacket::Suback { pid, props: props.clone(), reasons: partial }));
                    } else {
                        e.push(Ev::Deliver(SPacket::Suback { pid, props, reasons }));
                    }
                }
            }
            // stream() / drop of the response
            for i in 0..s.m.ops.len() {
                if let (OpSpec::Subscribe(_), St::Done, Some(sb)) =
                    (&s.m.ops[i].spec, &s.m.ops[i].st, s.m.ops[i].sub)
                {
                    if s.m.subs[sb].stream.is_none() && s.m.subs[sb].receiver_alive {
                        e.push(Ev::TakeStream(i));
                    }
                }
            }
            for i in 0..s.m.streams.len() {
                if s.m.streams[i].alive {
                    e.push(Ev::DropStream(i));
                }
            }
            // inbound messages
            let ids: Vec<u32> = s.m.subs.iter().filter_map(|x| x.sub_id).collect();
            if !ids.is_empty() {
                let n = s.transitions;
                let mut variants: Vec<Vec<u32>> = vec![vec![], vec![7]];
                for id in &ids {
                    variants.push(vec![*id]);
                }
                // repeated identifiers (one SUBSCRIBE with overlapping filters shares its identifier)
                variants.push(vec![ids[0], ids[0]]);
                if ids.len() == 2 {
                    variants.push(vec![ids[0], ids[1]]);
                    variants.push(vec![ids[1], ids[0], ids[1]]);
                    variants.push(vec![ids[0], 7, ids[1], ids[0]]);
                }
                // a QoS 1 message repeated by the broker (DUP = 1, same packet identifier): QoS 1 is
                // at-least-once, every copy is a PUBLISH of its own and is yielded
                e.push(Ev::Deliver(inbound(1, true, 100, &[ids[0]], &format!("d{}", n))));
                if ids.len() == 2 {
                    e.push(Ev::Deliver(inbound(1, true, 100, &[ids[1], ids[0]], &format!("d{}", n))));
                }
                if s.params["rel"].as_bool().unwrap_or(false) {
                    // QoS 2 exchanges over two identifiers, released in any order and reused at once:
                    // every new message is yielded (C09 looks at re-deliveries; here each PUBLISH is new)
                    for pid in [200u16, 201] {
                        if s.m.unreleased.contains(&pid) || s.m.inbox.iter().any(|p| matches!(p, SPacket::Publish { pid: Some(q), qos: 2, .. } if *q == pid)) {
                            if !s.m.inbox.iter().any(|p| matches!(p, SPacket::Ack { ty: 6, pid: q, .. } if *q == pid)) {
                                e.push(Ev::Deliver(pubrel_in(pid)));
                                // (a PUBREL may carry a reason - 0x92 - and properties: it releases all the same)
                                e.push(Ev::Deliver(SPacket::Ack { ty: 6, pid, reason: 0x92, props: vec![], form: 3 }));
                            }
                        } else {
                            e.push(Ev::Deliver(inbound(2, false, pid, &[ids[0]], &format!("x{}", n))));
                        }
                    }
                    return e;
                }
                for (vi, v) in variants.into_iter().enumerate() {
                    for q in 0..3u8 {
                        // every QoS for the plain shapes (absent, one identifier, both); the unknown
                        // and the repeated-identifier shapes rotate through the QoS levels
                        let plain = v.is_empty() || (v.len() == 1 && v[0] != 7) || (v.len() == 2 && v[0] != v[1]);
                        if !plain && q != (vi % 3) as u8 {
                            continue;
                        }
                        e.push(Ev::Deliver(inbound(
                            q,
                            false,
                            101 + n as u16,
                            &v,
                            &format!("m{}", n),
                        )));
                    }
                }
            }
            e
        };
        drive(&mut sys, chz, depth, &devs, &evs);
        sys.report(ex, &["message-dispatched"]);
    })
}
