//! C08 - every inbound QoS>0 PUBLISH and PUBREL is acknowledged exactly once, with its id, in order.

use super::common::*;
use super::*;
use crate::spec::*;
use crate::sys::*;
use pvcore::refcodec::*;

pub fn check(tier: Tier) -> Check {
    let parts = vec![
        Part::new("C08/acks", json!({"depth": tier.pick(3, 4), "pids": [1, 2, 65535]}), 0, tier.pick(40, 600)),
        Part::new("C08/acks", json!({"depth": tier.pick(4, 5), "pids": if tier == Tier::Quick { vec![65535] } else { vec![1, 65535] }}), 0, tier.pick(40, 600)),
    ];
    let mut parts = parts;
    parts.push(Part::new("C08/acks", json!({"depth": 3, "pids": [1, 65535], "flavour": 1, "own_rm": 20}), 0, tier.pick(40, 300)));
    // the second connection of a Context whose first one broke in the middle of an inbound packet (3) /
    // while an acknowledgement was being written (4): exactly one acknowledgement per packet here too
    parts.push(Part::new("C08/acks", json!({"depth": tier.pick(2, 3), "pids": [4242, 1], "flavour": 3}), 0, tier.pick(40, 300)));
    parts.push(Part::new("C08/acks", json!({"depth": tier.pick(2, 3), "pids": [4242, 1], "flavour": 4}), 0, tier.pick(40, 300)));
    // a Maximum Packet Size so small that the client can send no request at all (2 / 3 bytes): every
    // inbound QoS>0 PUBLISH and PUBREL is acknowledged all the same (the limit binds requests, C12)
    parts.push(Part::new("C08/reconnect", json!({}), 0, 60));
    // a rolling population of 1 .. 9 subscriptions; QoS 1 / QoS 2 messages naming every live one
    parts.push(Part::new("C08/rolling", json!({"rounds": tier.pick(10, 30)}), 0, 120));
    // QoS 1 / QoS 2 messages for a stream that lags 70 000 messages behind: acknowledged all the same
    parts.push(Part::new("C08/deep-backlog", json!({"n": 70_000}), 0, 120));
    parts.push(Part::new("C08/acks", json!({"depth": tier.pick(3, 4), "pids": [1, 2, 65535], "flavour": 9}), 0, tier.pick(40, 300)));
    parts.push(Part::new("C08/tiny", json!({"depth": tier.pick(3, 4)}), 0, tier.pick(40, 300)));
    // value flavour (DESIGN 4): the same exploration with requests / inbound messages of unusual content
    parts.push(Part::new("C08/acks", json!({"depth": tier.pick(3, 4), "pids": [1, 65535], "vals": 1}), 0, tier.pick(40, 300)));
    parts.push(Part::new("C08/acks", json!({"depth": tier.pick(3, 4), "pids": [1, 65535], "vals": 1, "flavour": 1, "own_rm": 20}), 0, tier.pick(40, 300)));
    Check {
        also_rel: false,
        property: "C08",
        level: "model_checking",
        rule: "all sequences of inbound PUBLISH (QoS 0/1/2 x DUP x packet id x subscription identifier absent / live stream / dropped stream / never registered) and PUBREL (also several packets arriving in one read, repeated PUBRELs, PUBRELs for identifiers never seen, PUBRELs in their three-byte form with reason 0x92 and in full with a reason string), with one client publish interleaved; across a resume / a plain reconnect with an inbound QoS 2 exchange open (no acknowledgement is repeated on its own); the same under a Maximum Packet Size of 2 / 3 bytes (which binds the client's requests, not its acknowledgements); the same on the second connection of a Context whose first connection ended inside an inbound packet or with a failed acknowledgement write; the wire must show exactly one PUBACK/PUBREC/PUBCOMP per packet with its identifier, in arrival order; messages with Payload Format Indicator 1 over bytes that are not UTF-8; value flavour incl. alias-only inbound messages on a connection that allows aliases; non-trivial = at least one acknowledgement was due".into(),
        assumptions: vec!["the reason code inside the client's acknowledgement is unconstrained".into()],
        parts,
    }
}

fn tiny(name: String, params: Value) -> Scenario {
    let depth = params["depth"].as_u64().unwrap_or(3) as usize;
    Box::new(move |chz, ex| {
        let m = [2u32, 3][chz.choose(2)];
        let mut sys = Sys::new("C08", &name, chz);
        sys.params = params.clone();
        sys.m.check_streams = false;
        sys.bring_up(vec![Prop::u32(P_MAXIMUM_PACKET_SIZE, m)]);
        let evs = |s: &Sys| {
            let mut e = vec![];
            let n = s.transitions;
            for pid in [1u16, 300] {
                for q in 1..3u8 {
                    for k in [vec![], vec![77u32]] {
                        e.push(Ev::Deliver(inbound(q, false, pid, &k, &format!("m{}", n))));
                    }
                }
                e.push(Ev::Deliver(pubrel_in(pid)));
            }
            e.push(Ev::Deliver(inbound(0, false, 0, &[], "q0")));
            e.push(Ev::DeliverBatch(vec![inbound(2, false, 1, &[], "b1"), pubrel_in(1), inbound(1, true, 300, &[], "b2")]));
            // requests are refused (too large), a ping fits
            if s.m.ops.len() < 2 {
                e.push(Ev::Start(OpSpec::Publish(PublishSpec::simple(1, "t", b"x"))));
                e.push(Ev::Start(OpSpec::Ping));
            }
            e.extend(broker_acks(s, false, false));
            e
        };
        drive(&mut sys, chz, depth, &|_| vec![], &evs);
        sys.report(ex, &["inbound-ack", "pubrel-in"]);
    })
}

pub fn scenario(name: &str, params: &Value) -> Scenario {
    if name == "C08/reconnect" {
        // (the C09 reconnect histories, judged by C08's rule: one acknowledgement per inbound packet -
        // nothing is written for packets of the previous connection)
        return super::c09::reset("C08", name.to_string(), params.clone());
    }
    if name == "C08/rolling" {
        return super::c07::rolling("C08", name.to_string(), params.clone());
    }
    if name == "C08/deep-backlog" {
        return super::c07::deep_backlog("C08", name.to_string(), params.clone());
    }
    if name == "C08/tiny" {
        return tiny(name.to_string(), params.clone());
    }
    let depth = params["depth"].as_u64().unwrap_or(3) as usize;
    let pids: Vec<u16> = params["pids"]
        .as_array()
        .map(|a| a.iter().map(|x| x.as_u64().unwrap() as u16).collect())
        .unwrap_or_else(|| vec![1, 65535]);
    let params = params.clone();
    let name = name.to_string();
    Box::new(move |chz, ex| {
        let mut sys = Sys::new("C08", &name, chz);
        sys.params = params.clone();
        sys.m.check_streams = false;
        sys.bring_up_fl(vec![], params["flavour"].as_u64().unwrap_or(0));
        // sub 0: live stream; sub 1: stream dropped
        for (i, f) in ["s/live", "s/dropped"].iter().enumerate() {
            sys.apply(Ev::Start(OpSpec::Subscribe(SubscribeSpec::simple(f))));
            if sys.dead {
                return sys.report(ex, &[]);
            }
            let ack = sys.ack_for(i, 0, "").unwrap();
            sys.apply(Ev::Deliver(ack));
            sys.apply(Ev::TakeStream(i));
        }
        sys.apply(Ev::DropStream(1));
        if sys.dead {
            return sys.report(ex, &[]);
        }
        let live = sys.m.subs[0].sub_id.unwrap();
        let dropped = sys.m.subs[1].sub_id.unwrap();
        let kinds: Vec<Vec<u32>> = vec![vec![], vec![live], vec![dropped], vec![77]];
        let pids = pids.clone();
        let evs = |s: &Sys| {
            let mut e = vec![];
            let n = s.transitions;
            for k in &kinds {
                e.push(Ev::Deliver(inbound(0, false, 0, k, &format!("m{}", n))));
                for q in 1..3u8 {
                    for dup in [false, true] {
                        for pid in &pids {
                            e.push(Ev::Deliver(inbound(q, dup, *pid, k, &format!("m{}", n))));
                        }
                    }
                }
            }
            // Payload Format Indicator 1 over bytes that are not UTF-8: a receiver MAY validate and answer
            // with reason 0x99, or not look at all - one acknowledgement either way (what the stream
            // gets is not compared in this check)
            for q in 1..3u8 {
                let mut bad = inbound(q, false, pids[0], &[live], "x");
                if let SPacket::Publish { props, payload, .. } = &mut bad {
                    props.insert(0, Prop::byte(P_PAYLOAD_FORMAT, 1));
                    *payload = vec![0xff, 0xfe, 0x00, 0x80];
                }
                e.push(Ev::Deliver(bad));
            }
            for pid in &pids {
                e.push(Ev::Deliver(pubrel_in(*pid)));
            }
            // PUBREL in its other legal forms: reason only (0x92 Packet Identifier not found), and
            // in full with a reason string - every PUBREL is answered with exactly one PUBCOMP
            e.push(Ev::Deliver(SPacket::Ack { ty: 6, pid: pids[0], reason: 0x92, props: vec![], form: 3 }));
            e.push(Ev::Deliver(SPacket::Ack {
                ty: 6,
                pid: pids[pids.len() - 1],
                reason: if n % 2 == 0 { 0x92 } else { 0 },
                props: vec![Prop::str(P_REASON_STRING, "rel")],
                form: 4,
            }));
            // several inbound packets in one read: the acknowledgements must keep arrival order
            let a = pids[0];
            let b = pids[pids.len() - 1];
            e.push(Ev::DeliverBatch(vec![inbound(1, false, a, &[live], "b1"), inbound(2, false, b, &[], "b2")]));
            e.push(Ev::DeliverBatch(vec![inbound(2, false, a, &[], "b3"), pubrel_in(a), inbound(1, true, a, &[dropped], "b4")]));
            e.push(Ev::DeliverBatch(vec![pubrel_in(b), pubrel_in(b), inbound(0, false, 0, &[live], "b5"), inbound(1, false, b, &[77], "b6")]));
            let pubs = s
                .m
                .ops
                .iter()
                .filter(|o| matches!(o.spec, OpSpec::Publish(_)))
                .count();
            if pubs == 0 {
                e.push(Ev::Start(OpSpec::Publish(PublishSpec::simple(1, "t/a", b"x"))));
            }
            e.extend(broker_acks(s, false, false));
            e
        };
        drive(&mut sys, chz, depth, &|_| vec![], &evs);
        sys.report(ex, &["inbound-ack", "pubrel-in"]);
    })
}
