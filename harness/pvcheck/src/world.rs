//! The closed system: real `Context`, real `ContextHandle` clones, real futures, mock transport and a
//! strict-waker executor (a task is polled only when its own waker fired, except for explicit
//! spurious polls).

use crate::spec::*;
use crate::wire::*;
use futures::stream::StreamExt;
use futures::Stream;
use poster::{Context as MqttContext, ContextHandle, PublishData, SubscribeRsp};
use pvcore::explore::Chz;
use pvcore::refcodec::{decode_client, frame_len, CPacket};
use std::cell::RefCell;
use std::collections::VecDeque;
use std::future::Future;
use std::panic::{catch_unwind, AssertUnwindSafe};
use std::pin::Pin;
use std::rc::Rc;
use std::sync::atomic::{AtomicBool, Ordering};
use std::sync::Arc;
use std::task::{Context, Poll, Wake, Waker};

type RunQ = Arc<std::sync::Mutex<std::collections::BTreeSet<usize>>>;

/// see `World::start_op_eager`
struct Eager {
    fut: Option<Pin<Box<dyn Future<Output = ()>>>>,
    h: *mut ContextHandle,
    spec: *mut OpSpec,
}
impl Eager {
    /// the library future first, then what it borrowed (the handle clone goes away with the operation)
    fn release(&mut self) {
        self.fut = None;
        if !self.h.is_null() {
            // SAFETY: created by Box::into_raw in start_op_eager; the only borrower was `fut`
            unsafe {
                drop(Box::from_raw(self.h));
                drop(Box::from_raw(self.spec));
            }
            self.h = std::ptr::null_mut();
            self.spec = std::ptr::null_mut();
        }
    }
}
impl Drop for Eager {
    fn drop(&mut self) {
        self.release();
    }
}

fn give_back(h: ContextHandle, ret: Option<Rc<RefCell<Option<ContextHandle>>>>) {
    match ret {
        Some(slot) => *slot.borrow_mut() = Some(h),
        None => drop(h),
    }
}

/// Per-task wake flag. Woken op tasks also enter a shared run set so that finding the next runnable
/// task does not scan every task (the long deterministic runs have 65 535 of them).
pub struct Flag {
    set: AtomicBool,
    op: Option<usize>,
    runq: RunQ,
    /// number of the task's latest poll
    gen: std::sync::atomic::AtomicU64,
}

/// The waker handed to ONE poll of a task. Only the waker of the task's most recent poll counts: a
/// wake through a waker of an earlier poll is ignored, as the `Future` contract allows ("only the
/// Waker from the most recent call should be scheduled to receive a wakeup") - code that keeps the
/// waker of its first Pending and does not re-register on a later poll (a stream looked at once with
/// `now_or_never`, then awaited; a future moved between tasks or polled by a combinator that hands
/// out fresh wakers) loses its wakeup here and shows as a stall.
struct PollWaker {
    flag: Arc<Flag>,
    gen: u64,
}
impl Wake for PollWaker {
    fn wake(self: Arc<Self>) {
        self.wake_by_ref();
    }
    fn wake_by_ref(self: &Arc<Self>) {
        if self.flag.gen.load(Ordering::SeqCst) == self.gen || lax_wakers() {
            self.flag.raise();
        }
    }
}
fn lax_wakers() -> bool {
    static LAX: std::sync::OnceLock<bool> = std::sync::OnceLock::new();
    *LAX.get_or_init(|| std::env::var("PV_LAX_WAKERS").is_ok())
}
impl Flag {
    fn raise(&self) {
        if !self.set.swap(true, Ordering::SeqCst) {
            if let Some(i) = self.op {
                self.runq.lock().unwrap().insert(i);
            }
        }
    }
}
impl Wake for Flag {
    fn wake(self: Arc<Self>) {
        self.raise();
    }
    fn wake_by_ref(self: &Arc<Self>) {
        self.raise();
    }
}

#[derive(Clone, Debug, PartialEq)]
pub enum Ob {
    /// number of bytes the next `Wire` packet really occupies on the wire (its form may be shorter or
    /// longer than the reference encoder's canonical one)
    WireLen(usize),
    Wire(CPacket),
    WireErr(String),
    Done { op: usize, res: String },
    Item { stream: usize, dig: String },
    StreamEnd { stream: usize },
    Ctx { cmd: &'static str, res: String },
    Panic { task: String, msg: String },
    /// an invariant evaluated by the executor itself was broken (rule, detail)
    Broken { rule: &'static str, detail: String },
}

impl Ob {
    pub fn brief(&self) -> String {
        match self {
            Ob::WireLen(n) => format!("({}B)", n),
            Ob::Wire(p) => format!("wire:{}", p.brief()),
            Ob::WireErr(e) => format!("wire:UNDECODABLE {}", e),
            Ob::Done { op, res } => format!("op{}:{}", op, res),
            Ob::Item { stream, dig } => format!("stream{}:{}", stream, dig),
            Ob::StreamEnd { stream } => format!("stream{}:END", stream),
            Ob::Ctx { cmd, res } => format!("ctx.{}:{}", cmd, res),
            Ob::Panic { task, msg } => format!("PANIC in {}: {}", task, msg),
            Ob::Broken { rule, detail } => format!("BROKEN {}: {}", rule, detail),
        }
    }
}

pub enum CtxCmd {
    SetUp(MockRead, MockWrite),
    Connect(ConnectSpec),
    Authorize(AuthSpec),
    Run,
    MarkDisconnected(u64),
    Exit,
}

#[derive(Clone, Copy, Debug, PartialEq, Eq)]
pub enum Phase {
    Idle,
    Connecting,
    Running,
    Gone,
}

pub struct Shared {
    pub log: Vec<Ob>,
    cmds: VecDeque<CtxCmd>,
    cmd_waker: Option<Waker>,
    pub phase: Phase,
    rsps: Vec<Option<SubscribeRsp>>,
}

struct NextCmd(Rc<RefCell<Shared>>);
impl Future for NextCmd {
    type Output = CtxCmd;
    fn poll(self: Pin<&mut Self>, cx: &mut Context<'_>) -> Poll<CtxCmd> {
        let mut s = self.0.borrow_mut();
        if let Some(c) = s.cmds.pop_front() {
            return Poll::Ready(c);
        }
        s.cmd_waker = Some(cx.waker().clone());
        Poll::Pending
    }
}

type BoxFut = Pin<Box<dyn Future<Output = ()>>>;

pub struct Task {
    fut: Option<BoxFut>,
    flag: Arc<Flag>,
    pub held: bool,
    pub polls: u64,
    pub name: String,
}

impl Task {
    fn new(name: String, fut: BoxFut, op: Option<usize>, runq: &RunQ) -> Task {
        if let Some(i) = op {
            runq.lock().unwrap().insert(i);
        }
        Task {
            fut: Some(fut),
            flag: Arc::new(Flag {
                set: AtomicBool::new(true),
                op,
                runq: runq.clone(),
                gen: std::sync::atomic::AtomicU64::new(0),
            }),
            held: false,
            polls: 0,
            name,
        }
    }
    pub fn alive(&self) -> bool {
        self.fut.is_some()
    }
    pub fn flagged(&self) -> bool {
        self.flag.set.load(Ordering::SeqCst)
    }
}

#[derive(Clone, Copy, Debug, PartialEq, Eq)]
pub enum Tid {
    Ctx,
    Op(usize),
    Stream(usize),
}

thread_local! {
    static LAST_PANIC: RefCell<Option<String>> = const { RefCell::new(None) };
}

pub fn install_panic_hook() {
    let default = std::panic::take_hook();
    std::panic::set_hook(Box::new(move |info| {
        let msg = if let Some(s) = info.payload().downcast_ref::<&str>() {
            s.to_string()
        } else if let Some(s) = info.payload().downcast_ref::<String>() {
            s.clone()
        } else {
            "<non-string panic>".to_string()
        };
        let loc = info
            .location()
            .map(|l| format!("{}:{}", l.file(), l.line()))
            .unwrap_or_default();
        if msg.starts_with("MACHINERY") || msg.starts_with("harness") {
            default(info);
        } else if std::env::var("PV_SHOW_PANICS").is_ok() {
            eprintln!("panic: {} @ {}", msg, loc);
        }
        LAST_PANIC.with(|p| *p.borrow_mut() = Some(format!("{} @ {}", msg, loc)));
    }));
}

pub fn last_panic_text() -> String {
    take_panic()
}

fn take_panic() -> String {
    LAST_PANIC
        .with(|p| p.borrow_mut().take())
        .unwrap_or_else(|| "<unknown>".into())
}

pub struct World {
    pub chz: Chz,
    pub wire: Rc<RefCell<Wire>>,
    pub sh: Rc<RefCell<Shared>>,
    pub ctx: Task,
    pub ops: Vec<Task>,
    pub streams: Vec<Task>,
    pub master: Option<ContextHandle>,
    /// the long-lived worker handle (None: not created yet, or inside the operation it is running)
    pub worker: Rc<RefCell<Option<ContextHandle>>>,
    maybe_msgs: bool,
    decoded_upto: usize,
    wire_broken: bool,
    /// packets decoded from earlier wires (before a reconnect)
    pub total_polls: u64,
    pub wire_generation: u32,
    runq: RunQ,
    /// fire-and-forget operations (QoS 0 publish, disconnect): complete "once written"
    fnf_ops: Vec<usize>,
    fnf_reported: bool,
}

impl World {
    pub fn new(chz: Chz) -> World {
        let (ctx, handle) = MqttContext::<MockRead, MockWrite>::new();
        let wire = Wire::new();
        wire.borrow_mut().chz = Some(chz.clone());
        let sh = Rc::new(RefCell::new(Shared {
            log: Vec::new(),
            cmds: VecDeque::new(),
            cmd_waker: None,
            phase: Phase::Idle,
            rsps: Vec::new(),
        }));
        let sh2 = sh.clone();
        let fut: BoxFut = Box::pin(async move {
            let mut ctx = ctx;
            loop {
                let cmd = NextCmd(sh2.clone()).await;
                match cmd {
                    CtxCmd::SetUp(r, w) => {
                        ctx.set_up((r, w));
                    }
                    CtxCmd::Connect(spec) => {
                        sh2.borrow_mut().phase = Phase::Connecting;
                        let r = ctx.connect(spec.opts()).await;
                        let d = connect_result_dig(&r);
                        let mut s = sh2.borrow_mut();
                        s.phase = Phase::Idle;
                        s.log.push(Ob::Ctx {
                            cmd: "connect",
                            res: d,
                        });
                    }
                    CtxCmd::Authorize(spec) => {
                        sh2.borrow_mut().phase = Phase::Connecting;
                        let r = ctx.authorize(spec.opts()).await;
                        let d = connect_result_dig(&r);
                        let mut s = sh2.borrow_mut();
                        s.phase = Phase::Idle;
                        s.log.push(Ob::Ctx {
                            cmd: "authorize",
                            res: d,
                        });
                    }
                    CtxCmd::Run => {
                        sh2.borrow_mut().phase = Phase::Running;
                        let r = ctx.run().await;
                        let d = unit_result_dig(&r);
                        let mut s = sh2.borrow_mut();
                        s.phase = Phase::Idle;
                        s.log.push(Ob::Ctx { cmd: "run", res: d });
                    }
                    #[allow(unused_variables)]
                    CtxCmd::MarkDisconnected(secs) => {
                        ctx.verif_mark_disconnected(secs);
                    }
                    CtxCmd::Exit => break,
                }
            }
            drop(ctx);
            sh2.borrow_mut().phase = Phase::Gone;
        });
        let runq: RunQ = Arc::new(std::sync::Mutex::new(std::collections::BTreeSet::new()));
        let mut w = World {
            runq: runq.clone(),
            fnf_ops: vec![],
            fnf_reported: false,
            chz,
            wire: wire.clone(),
            sh,
            ctx: Task::new("ctx".into(), fut, None, &runq),
            ops: Vec::new(),
            streams: Vec::new(),
            master: Some(handle),
            worker: Rc::new(RefCell::new(None)),
            maybe_msgs: false,
            decoded_upto: 0,
            wire_broken: false,
            total_polls: 0,
            wire_generation: 0,
        };
        w.cmd(CtxCmd::SetUp(MockRead(wire.clone()), MockWrite(wire)));
        w
    }

    /// Replace the transport (reconnect). The old wire is abandoned.
    pub fn new_wire(&mut self) {
        let wire = Wire::new();
        wire.borrow_mut().chz = Some(self.chz.clone());
        wire.borrow_mut().write_mode = self.wire.borrow().write_mode;
        self.wire = wire.clone();
        self.decoded_upto = 0;
        self.wire_broken = false;
        self.wire_generation += 1;
        self.cmd(CtxCmd::SetUp(MockRead(wire.clone()), MockWrite(wire)));
    }

    pub fn cmd(&mut self, c: CtxCmd) {
        let mut s = self.sh.borrow_mut();
        s.cmds.push_back(c);
        if let Some(w) = s.cmd_waker.take() {
            w.wake();
        }
    }

    pub fn phase(&self) -> Phase {
        self.sh.borrow().phase
    }

    pub fn handle(&self) -> ContextHandle {
        self.master
            .as_ref()
            .expect("harness: master handle already dropped")
            .clone()
    }

    /// Start a user operation on its own clone of the handle. Returns the op index.
    pub fn start_op(&mut self, spec: OpSpec) -> usize {
        let h = self.handle();
        self.start_op_on(spec, h)
    }

    /// Start an operation on the long-lived worker handle (mode 1: the handle itself, given back to
    /// its slot when the operation completes; mode 2: a clone of it taken now). The worker is a clone
    /// of the master handle made when first needed. State an implementation keeps inside a handle
    /// between operations, or copies when a handle is cloned, only shows this way.
    pub fn start_op_worker(&mut self, spec: OpSpec, mode: u8) -> usize {
        if self.worker.borrow().is_none() {
            let h = self.handle();
            *self.worker.borrow_mut() = Some(h);
        }
        if mode == 1 {
            let h = self.worker.borrow_mut().take().expect("harness: worker handle is busy");
            let slot = self.worker.clone();
            self.start_op_ret(spec, h, Some(slot))
        } else {
            let h = self.worker.borrow().as_ref().expect("harness: worker handle is busy").clone();
            self.start_op_ret(spec, h, None)
        }
    }

    /// Start an operation whose library future is CREATED now (`handle.publish(opts)` is called at
    /// once) although it is first polled later: whatever an implementation does at call time instead
    /// of at the first poll (drawing identifiers, measuring the packet) happens here, ahead of
    /// everything that is started before this future gets its first poll. The handle clone and the
    /// option values are kept on the heap next to the future and freed after it.
    pub fn start_op_eager(&mut self, spec: OpSpec) -> usize {
        let op = self.ops.len();
        let sh = self.sh.clone();
        sh.borrow_mut().rsps.push(None);
        match &spec {
            OpSpec::Publish(p) if p.qos() == 0 => self.fnf_ops.push(op),
            OpSpec::Disconnect(_) => self.fnf_ops.push(op),
            _ => {}
        }
        // stable heap addresses; released by `Eager::drop` after the future that borrows them
        let hp: *mut ContextHandle = Box::into_raw(Box::new(self.handle()));
        let sp: *mut OpSpec = Box::into_raw(Box::new(spec));
        // SAFETY: `hp` and `sp` stay valid and are not touched by anybody else until `Eager::drop`
        // has dropped the future that borrows them.
        let (h, spec): (&'static mut ContextHandle, &'static OpSpec) = unsafe { (&mut *hp, &*sp) };
        let inner: Pin<Box<dyn Future<Output = ()>>> = match spec {
            OpSpec::Publish(p) => {
                let f = h.publish(p.opts());
                Box::pin(async move {
                    let r = f.await;
                    let d = unit_result_dig(&r);
                    sh.borrow_mut().log.push(Ob::Done { op, res: d });
                })
            }
            OpSpec::Subscribe(p) => {
                let f = h.subscribe(p.opts());
                Box::pin(async move {
                    let r = f.await;
                    let d = match &r {
                        Ok(rsp) => suback_dig(rsp),
                        Err(e) => err_dig(e),
                    };
                    let mut s = sh.borrow_mut();
                    if let Ok(rsp) = r {
                        s.rsps[op] = Some(rsp);
                    }
                    s.log.push(Ob::Done { op, res: d });
                })
            }
            OpSpec::Unsubscribe(p) => {
                let f = h.unsubscribe(p.opts());
                Box::pin(async move {
                    let r = f.await;
                    let d = match &r {
                        Ok(rsp) => unsuback_dig(rsp),
                        Err(e) => err_dig(e),
                    };
                    sh.borrow_mut().log.push(Ob::Done { op, res: d });
                })
            }
            OpSpec::Ping => {
                let f = h.ping();
                Box::pin(async move {
                    let r = f.await;
                    let d = unit_result_dig(&r);
                    sh.borrow_mut().log.push(Ob::Done { op, res: d });
                })
            }
            OpSpec::Disconnect(p) => {
                let f = h.disconnect(p.opts());
                Box::pin(async move {
                    let r = f.await;
                    let d = unit_result_dig(&r);
                    sh.borrow_mut().log.push(Ob::Done { op, res: d });
                })
            }
        };
        let mut eager = Eager { fut: Some(inner), h: hp, spec: sp };
        let fut: BoxFut = Box::pin(std::future::poll_fn(move |cx| {
            let r = eager.fut.as_mut().expect("polled after completion").as_mut().poll(cx);
            if r.is_ready() {
                eager.release();
            }
            r
        }));
        self.ops.push(Task::new(format!("op{}", op), fut, Some(op), &self.runq));
        op
    }

    pub fn start_op_on(&mut self, spec: OpSpec, h: ContextHandle) -> usize {
        self.start_op_ret(spec, h, None)
    }

    fn start_op_ret(&mut self, spec: OpSpec, mut h: ContextHandle, ret: Option<Rc<RefCell<Option<ContextHandle>>>>) -> usize {
        let op = self.ops.len();
        let sh = self.sh.clone();
        sh.borrow_mut().rsps.push(None);
        match &spec {
            OpSpec::Publish(p) if p.qos() == 0 => self.fnf_ops.push(op),
            OpSpec::Disconnect(_) => self.fnf_ops.push(op),
            _ => {}
        }
        let fut: BoxFut = match spec {
            OpSpec::Publish(p) => Box::pin(async move {
                let r = h.publish(p.opts()).await;
                give_back(h, ret);
                let d = unit_result_dig(&r);
                sh.borrow_mut().log.push(Ob::Done { op, res: d });
            }),
            OpSpec::Subscribe(p) => Box::pin(async move {
                let r = h.subscribe(p.opts()).await;
                give_back(h, ret);
                let d = match &r {
                    Ok(rsp) => suback_dig(rsp),
                    Err(e) => err_dig(e),
                };
                let mut s = sh.borrow_mut();
                if let Ok(rsp) = r {
                    s.rsps[op] = Some(rsp);
                }
                s.log.push(Ob::Done { op, res: d });
            }),
            OpSpec::Unsubscribe(p) => Box::pin(async move {
                let r = h.unsubscribe(p.opts()).await;
                give_back(h, ret);
                let d = match &r {
                    Ok(rsp) => unsuback_dig(rsp),
                    Err(e) => err_dig(e),
                };
                sh.borrow_mut().log.push(Ob::Done { op, res: d });
            }),
            OpSpec::Ping => Box::pin(async move {
                let r = h.ping().await;
                give_back(h, ret);
                let d = unit_result_dig(&r);
                sh.borrow_mut().log.push(Ob::Done { op, res: d });
            }),
            OpSpec::Disconnect(p) => Box::pin(async move {
                let r = h.disconnect(p.opts()).await;
                give_back(h, ret);
                let d = unit_result_dig(&r);
                sh.borrow_mut().log.push(Ob::Done { op, res: d });
            }),
        };
        self.ops.push(Task::new(format!("op{}", op), fut, Some(op), &self.runq));
        op
    }

    /// Turn the SubscribeRsp of a completed subscribe op into a stream task. Returns stream index.
    pub fn take_stream(&mut self, op: usize) -> Option<usize> {
        let rsp = self.sh.borrow_mut().rsps[op].take()?;
        let sid = self.streams.len();
        let sh = self.sh.clone();
        let mut st: Pin<Box<dyn Stream<Item = PublishData>>> = Box::pin(rsp.stream());
        let fut: BoxFut = Box::pin(async move {
            while let Some(d) = st.next().await {
                let dig = publish_data_dig(&d);
                sh.borrow_mut().log.push(Ob::Item { stream: sid, dig });
            }
            sh.borrow_mut().log.push(Ob::StreamEnd { stream: sid });
        });
        self.streams.push(Task::new(format!("stream{}", sid), fut, None, &self.runq));
        Some(sid)
    }

    /// Drop an unconsumed SubscribeRsp (the user never called stream()).
    pub fn drop_rsp(&mut self, op: usize) -> bool {
        self.sh.borrow_mut().rsps[op].take().is_some()
    }

    fn task_mut(&mut self, t: Tid) -> &mut Task {
        match t {
            Tid::Ctx => &mut self.ctx,
            Tid::Op(i) => &mut self.ops[i],
            Tid::Stream(i) => &mut self.streams[i],
        }
    }
    pub fn task(&self, t: Tid) -> &Task {
        match t {
            Tid::Ctx => &self.ctx,
            Tid::Op(i) => &self.ops[i],
            Tid::Stream(i) => &self.streams[i],
        }
    }

    /// Drop a task's future (cancellation / context drop / stream drop).
    pub fn drop_task(&mut self, t: Tid) {
        let name = self.task(t).name.clone();
        let fut = self.task_mut(t).fut.take();
        if let Some(f) = fut {
            if catch_unwind(AssertUnwindSafe(move || drop(f))).is_err() {
                let msg = take_panic();
                self.sh.borrow_mut().log.push(Ob::Panic {
                    task: format!("drop of {}", name),
                    msg,
                });
            }
        }
        match t {
            Tid::Ctx => {
                // pending commands own transport halves; they die with the context task
                self.sh.borrow_mut().cmds.clear();
                self.sh.borrow_mut().phase = Phase::Gone;
            }
            Tid::Op(i) => {
                self.maybe_msgs = true; // its handle clone is gone
                self.runq.lock().unwrap().remove(&i);
            }
            Tid::Stream(_) => {}
        }
        self.after_poll();
    }

    pub fn drop_master(&mut self) {
        self.master = None;
        self.maybe_msgs = true;
        self.update_gate();
    }

    /// Poll one task now (whether or not its waker fired).
    pub fn poll_task(&mut self, t: Tid) {
        self.total_polls += 1;
        let task = self.task_mut(t);
        let Some(mut fut) = task.fut.take() else {
            return;
        };
        if let Tid::Op(i) = t {
            self.runq.lock().unwrap().remove(&i);
        }
        let task = self.task_mut(t);
        task.flag.set.store(false, Ordering::SeqCst);
        task.polls += 1;
        let gen = task.flag.gen.fetch_add(1, Ordering::SeqCst) + 1;
        let waker = Waker::from(Arc::new(PollWaker { flag: task.flag.clone(), gen }));
        let name = task.name.clone();
        let mut cx = Context::from_waker(&waker);
        pvcore::hang::enter(&name);
        let r = catch_unwind(AssertUnwindSafe(|| fut.as_mut().poll(&mut cx)));
        pvcore::hang::leave();
        let mut pending = false;
        match r {
            Ok(Poll::Ready(())) => {
                if catch_unwind(AssertUnwindSafe(move || drop(fut))).is_err() {
                    let msg = take_panic();
                    self.sh.borrow_mut().log.push(Ob::Panic {
                        task: format!("drop of {}", name),
                        msg,
                    });
                }
            }
            Ok(Poll::Pending) => {
                pending = true;
                self.task_mut(t).fut = Some(fut);
            }
            Err(_) => {
                let msg = take_panic();
                self.sh.borrow_mut().log.push(Ob::Panic { task: name, msg });
                // a panicked future must not be polled again; drop it (guarded)
                let _ = catch_unwind(AssertUnwindSafe(move || drop(fut)));
                let _ = take_panic_opt();
                if t == Tid::Ctx {
                    self.sh.borrow_mut().phase = Phase::Gone;
                }
            }
        }
        match t {
            Tid::Ctx => {
                if pending
                    && !self.wire.borrow().write_blocked
                    && self.phase() == Phase::Running
                    && !self.ctx.flagged()
                {
                    // the select loop only returns Pending after both branches did: queue drained.
                    // (Not assumed when the context task woke itself or was woken during its own
                    // poll - e.g. a cooperative yield with requests still queued: it will be polled
                    // again and the question is asked again then.)
                    self.maybe_msgs = false;
                }
            }
            Tid::Op(_) => self.maybe_msgs = true,
            Tid::Stream(_) => {}
        }
        self.after_poll();
    }

    fn update_gate(&mut self) {
        let closed = self.phase() == Phase::Running && self.maybe_msgs;
        let mut w = self.wire.borrow_mut();
        let was = w.gate_closed;
        w.gate_closed = closed;
        if was && !closed && (w.unread() > 0 || w.eof || w.read_err || w.read_err_once.is_some()) {
            w.wake_reader();
        }
    }

    fn after_poll(&mut self) {
        self.update_gate();
        self.decode_wire();
    }

    fn decode_wire(&mut self) {
        if self.wire_broken {
            return;
        }
        loop {
            let w = self.wire.borrow();
            let buf = &w.out[self.decoded_upto..];
            if buf.is_empty() {
                break;
            }
            match frame_len(buf) {
                Ok(Some(n)) if n <= buf.len() => {
                    let r = decode_client(&buf[..n]);
                    let head = pvcore::refcodec::hex_head(&buf[..n]);
                    drop(w);
                    self.decoded_upto += n;
                    match r {
                        Ok(p) => {
                            let mut sh = self.sh.borrow_mut();
                            sh.log.push(Ob::WireLen(n));
                            sh.log.push(Ob::Wire(p));
                        }
                        Err(e) => {
                            self.sh
                                .borrow_mut()
                                .log
                                .push(Ob::WireErr(format!("{} [{}]", e, head)));
                        }
                    }
                }
                Ok(_) => break,
                Err(e) => {
                    let head = pvcore::refcodec::hex_head(buf);
                    drop(w);
                    self.wire_broken = true;
                    self.sh
                        .borrow_mut()
                        .log
                        .push(Ob::WireErr(format!("{} [{}]", e, head)));
                    break;
                }
            }
        }
    }

    /// bytes written that do not (yet) form a whole packet
    pub fn partial_out(&self) -> usize {
        self.wire.borrow().out.len() - self.decoded_upto
    }

    fn next_runnable(&self) -> Option<Tid> {
        if self.ctx.alive() && self.ctx.flagged() && !self.ctx.held {
            return Some(Tid::Ctx);
        }
        {
            let q = self.runq.lock().unwrap();
            for &i in q.iter() {
                let t = &self.ops[i];
                if t.alive() && t.flagged() && !t.held {
                    return Some(Tid::Op(i));
                }
            }
        }
        for (i, t) in self.streams.iter().enumerate() {
            if t.alive() && t.flagged() && !t.held {
                return Some(Tid::Stream(i));
            }
        }
        None
    }

    /// Poll woken tasks in canonical order until quiescent.
    pub fn settle(&mut self) {
        let mut guard = 0u64;
        loop {
            guard += 1;
            if guard > 2_000_000 {
                panic!("MACHINERY: settle() does not terminate (livelock in harness or library)");
            }
            if let Some(t) = self.next_runnable() {
                self.poll_task(t);
                continue;
            }
            // quiescent among runnable tasks
            if self.wire.borrow().write_blocked && self.ctx.alive() && !self.ctx.held {
                // The context is parked inside a write the transport has not accepted yet: a
                // QoS 0 publish / disconnect must not have completed ahead of its packet.
                self.check_written_before_completed();
                if self.wire.borrow().hard_budget == Some(0) {
                    // persistent back-pressure: the block is lifted by an event, not by time
                    break;
                }
                // the transport becomes writable again
                self.wire.borrow_mut().wake_writer();
                continue;
            }
            if self.maybe_msgs
                && self.ctx.alive()
                && !self.ctx.held
                && self.phase() == Phase::Running
                && !self.wire.borrow().write_blocked
            {
                // ctx is parked in the select loop and was not woken by the message channel:
                // the queue is empty (a library that failed to register that waker is caught by the
                // oracle as a missing effect before this assumption matters)
                self.maybe_msgs = false;
                self.update_gate();
                continue;
            }
            break;
        }
    }

    fn check_written_before_completed(&mut self) {
        if self.fnf_reported || self.fnf_ops.is_empty() {
            return;
        }
        let (done, written) = {
            let sh = self.sh.borrow();
            let done = sh
                .log
                .iter()
                .filter(|o| matches!(o, Ob::Done { op, res } if res == "Ok" && self.fnf_ops.contains(op)))
                .count();
            let written = sh
                .log
                .iter()
                .filter(|o| match o {
                    Ob::Wire(CPacket::Publish(p)) => p.qos == 0,
                    Ob::Wire(CPacket::Disconnect(_)) => true,
                    _ => false,
                })
                .count();
            (done, written)
        };
        if done > written {
            self.fnf_reported = true;
            self.sh.borrow_mut().log.push(Ob::Broken {
                rule: "completed-before-written",
                detail: format!(
                    "{} QoS 0 publish / disconnect operation(s) completed Ok while only {} such packet(s) are completely on the wire (the transport has not accepted the rest yet)",
                    done, written
                ),
            });
        }
    }

    /// Make bytes available to the read half as one read chunk.
    pub fn deliver(&mut self, bytes: Vec<u8>) {
        if bytes.is_empty() {
            return;
        }
        let mut w = self.wire.borrow_mut();
        w.staged.push_back(bytes);
        if !w.gate_closed {
            w.wake_reader();
        }
    }
    pub fn eof(&mut self) {
        let mut w = self.wire.borrow_mut();
        w.eof = true;
        if !w.gate_closed {
            w.wake_reader();
        }
    }
    /// a transient read error: the next poll_read answers Err(kind) once; what is staged stays readable
    pub fn read_error_once(&mut self, kind: std::io::ErrorKind) {
        let mut w = self.wire.borrow_mut();
        w.read_err_once = Some(kind);
        if !w.gate_closed {
            w.wake_reader();
        }
    }
    pub fn set_err_kinds(&mut self, read: std::io::ErrorKind, write: std::io::ErrorKind) {
        let mut w = self.wire.borrow_mut();
        w.transient_kind = read;
        let retryable = |k: std::io::ErrorKind| matches!(k, std::io::ErrorKind::WouldBlock | std::io::ErrorKind::Interrupted);
        if !retryable(read) {
            w.read_err_kind = read;
        }
        if !retryable(write) {
            w.write_err_kind = write;
        }
    }
    pub fn read_error(&mut self) {
        let mut w = self.wire.borrow_mut();
        w.read_err = true;
        if !w.gate_closed {
            w.wake_reader();
        }
    }
    /// the transport accepts `k` more bytes and then blocks until `lift_write_block`
    pub fn arm_write_block(&mut self, k: usize) {
        self.wire.borrow_mut().hard_budget = Some(k);
    }
    pub fn lift_write_block(&mut self) {
        let mut w = self.wire.borrow_mut();
        w.hard_budget = None;
        if w.write_blocked {
            w.wake_writer();
        }
    }
    pub fn hard_blocked(&self) -> bool {
        let w = self.wire.borrow();
        w.hard_budget == Some(0) && w.write_blocked
    }
    pub fn write_error(&mut self) {
        self.wire.borrow_mut().write_err = true;
    }

    pub fn log_len(&self) -> usize {
        self.sh.borrow().log.len()
    }
    pub fn obs_since(&self, i: usize) -> Vec<Ob> {
        self.sh.borrow().log[i..].to_vec()
    }

    /// L1: at quiescence, a live context that is reading must have consumed everything visible.
    pub fn stalled_input(&self) -> Option<String> {
        if !self.ctx.alive() || self.ctx.held {
            return None;
        }
        let ph = self.phase();
        if ph != Phase::Connecting && ph != Phase::Running {
            return None;
        }
        let w = self.wire.borrow();
        if w.gate_closed || w.write_blocked {
            return None;
        }
        if w.unread() > 0 {
            return Some(format!(
                "{} unread byte(s) visible to the transport while {:?} and no wakeup pending",
                w.unread(),
                ph
            ));
        }
        if (w.eof || w.read_err) && !w.eof_reported {
            return Some("end-of-stream / read error never observed by the client".into());
        }
        None
    }

    pub fn trace_hash(&self) -> u64 {
        let mut h = 0xcbf29ce484222325u64;
        for o in &self.sh.borrow().log {
            pvcore::explore::fnv(&mut h, format!("{:?}", o).as_bytes());
            pvcore::explore::fnv(&mut h, b"\n");
        }
        h
    }
}

fn take_panic_opt() -> Option<String> {
    LAST_PANIC.with(|p| p.borrow_mut().take())
}
