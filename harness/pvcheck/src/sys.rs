//! World + Model stepped in lock-step by events; comparison at every quiescent point.

use crate::model::*;
use crate::spec::*;
use crate::wire::WriteMode;
use crate::world::*;
use pvcore::explore::{Chz, Exec, Violation};
use pvcore::refcodec::*;
use serde_json::json;

#[derive(Clone, Debug)]
pub enum Ev {
    Start(OpSpec),
    /// start an operation whose future is not polled yet (held from the beginning)
    StartHeld(OpSpec),
    /// start an operation on the long-lived worker handle itself / on a clone of it taken now
    StartW(OpSpec),
    StartWC(OpSpec),
    Cancel(usize),
    Hold(Tid),
    Release(Tid),
    Spurious(Tid),
    /// one packet, one read
    Deliver(SPacket),
    /// several packets in one read
    DeliverBatch(Vec<SPacket>),
    /// one packet, every byte its own read (all immediately available)
    DeliverBytewise(SPacket),
    /// one packet cut in two reads at `cut`; the second becomes available only after quiescence
    DeliverSplit(SPacket, usize),
    Eof,
    /// the first `n` bytes of a packet, then end-of-stream
    PartialThenEof(SPacket, usize),
    ReadErr,
    /// a transient read error: Err(kind) once, the transport is readable again afterwards
    ReadErrOnce,
    WriteErr,
    TakeStream(usize),
    DropRsp(usize),
    DropStream(usize),
    DropMaster,
    DropCtx,
    /// persistent back-pressure: the transport accepts k (0 or 1) more bytes, then answers Pending
    /// until `WriteUnblock` - the write of the next packet does not complete in between
    WriteBlock(usize),
    WriteUnblock,
}

impl Ev {
    pub fn brief(&self) -> String {
        match self {
            Ev::Start(s) => format!("Start({})", s.brief()),
            Ev::StartHeld(s) => format!("StartHeld({})", s.brief()),
            Ev::StartW(s) => format!("StartOnWorkerHandle({})", s.brief()),
            Ev::StartWC(s) => format!("StartOnCloneOfWorkerHandle({})", s.brief()),
            Ev::Cancel(i) => format!("Cancel(op{})", i),
            Ev::Hold(t) => format!("Hold({:?})", t),
            Ev::Release(t) => format!("Release({:?})", t),
            Ev::Spurious(t) => format!("SpuriousPoll({:?})", t),
            Ev::Deliver(p) => format!("Deliver({})", p.brief()),
            Ev::DeliverBatch(v) => format!(
                "DeliverInOneRead({})",
                v.iter().map(|p| p.brief()).collect::<Vec<_>>().join(", ")
            ),
            Ev::DeliverBytewise(p) => format!("DeliverBytewise({})", p.brief()),
            Ev::DeliverSplit(p, c) => format!("DeliverSplit({}, cut={})", p.brief(), c),
            Ev::Eof => "Eof".into(),
            Ev::PartialThenEof(p, n) => format!("PartialThenEof({} bytes of {})", n, p.brief()),
            Ev::ReadErr => "ReadError".into(),
            Ev::ReadErrOnce => "TransientReadError".into(),
            Ev::WriteErr => "WriteError".into(),
            Ev::TakeStream(i) => format!("TakeStream(op{})", i),
            Ev::DropRsp(i) => format!("DropSubscribeRsp(op{})", i),
            Ev::DropStream(i) => format!("DropStream(stream{})", i),
            Ev::DropMaster => "DropLastHandle".into(),
            Ev::DropCtx => "DropContext".into(),
            Ev::WriteBlock(k) => format!("WriteBlock(after {} byte(s))", k),
            Ev::WriteUnblock => "WriteUnblock".into(),
        }
    }
    /// schedule-independent class (no indices / tags), used in witnesses
    pub fn class(&self, m: &Model) -> String {
        let opk = |i: usize| match &m.ops[i].spec {
            OpSpec::Publish(p) => format!("publish-q{}", p.qos()),
            OpSpec::Subscribe(_) => "subscribe".into(),
            OpSpec::Unsubscribe(_) => "unsubscribe".into(),
            OpSpec::Ping => "ping".into(),
            OpSpec::Disconnect(_) => "disconnect".into(),
        };
        let tk = |t: &Tid| match t {
            Tid::Ctx => "ctx".to_string(),
            Tid::Op(i) => format!("{}:{:?}", opk(*i), std::mem::discriminant(&m.ops[*i].st)),
            Tid::Stream(_) => "stream".to_string(),
        };
        let pk = |p: &SPacket| match p {
            SPacket::Connack { reason, .. } => format!("CONNACK r{:#x}", reason),
            SPacket::Publish { qos, dup, props, .. } => format!(
                "PUBLISH q{}{} subids={}",
                qos,
                if *dup { " dup" } else { "" },
                props.iter().filter(|p| p.id == 11).count()
            ),
            SPacket::Ack { ty, reason, form, pid, .. } => format!(
                "{}{} r{:#x} form{}",
                ["", "", "", "", "PUBACK", "PUBREC", "PUBREL", "PUBCOMP"][*ty as usize],
                // an acknowledgement addressed to an operation whose future was dropped
                if *ty != 6
                    && m.by_pid.get(pid).map(|v| v.iter().any(|&i| {
                        let o = &m.ops[i];
                        !o.alive && matches!(o.st, St::AwaitAck | St::AwaitRec | St::AwaitComp)
                    })).unwrap_or(false)
                {
                    " for-cancelled-op"
                } else {
                    ""
                },
                reason,
                form
            ),
            SPacket::Suback { .. } => "SUBACK".into(),
            SPacket::Unsuback { .. } => "UNSUBACK".into(),
            SPacket::Pingresp => "PINGRESP".into(),
            SPacket::Disconnect { reason, form, .. } => format!("DISCONNECT r{:#x} form{}", reason, form),
            SPacket::Auth { reason, form, .. } => format!("AUTH r{:#x} form{}", reason, form),
            SPacket::Raw(_) => "RAW".into(),
        };
        match self {
            Ev::Start(s) | Ev::StartHeld(s) | Ev::StartW(s) | Ev::StartWC(s) => format!(
                "Start({})",
                match s {
                    OpSpec::Publish(p) => format!("publish-q{}", p.qos()),
                    OpSpec::Subscribe(_) => "subscribe".into(),
                    OpSpec::Unsubscribe(_) => "unsubscribe".into(),
                    OpSpec::Ping => "ping".into(),
                    OpSpec::Disconnect(_) => "disconnect".into(),
                }
            ),
            Ev::Cancel(i) => format!("Cancel({}:{:?})", opk(*i), m.ops[*i].st_name()),
            Ev::Hold(t) => format!("Hold({})", tk(t)),
            Ev::Release(t) => format!("Release({})", tk(t)),
            Ev::Spurious(t) => format!("SpuriousPoll({})", tk(t)),
            Ev::Deliver(p) => format!("Deliver({})", pk(p)),
            Ev::DeliverBatch(v) => format!(
                "DeliverInOneRead({})",
                v.iter().map(pk).collect::<Vec<_>>().join(",")
            ),
            Ev::DeliverBytewise(p) => format!("DeliverBytewise({})", pk(p)),
            Ev::DeliverSplit(p, _) => format!("DeliverSplit({})", pk(p)),
            Ev::PartialThenEof(..) => "PartialThenEof".into(),
            Ev::TakeStream(_) => "TakeStream".into(),
            Ev::DropRsp(_) => "DropSubscribeRsp".into(),
            Ev::DropStream(_) => "DropStream".into(),
            other => other.brief(),
        }
    }
}

impl MOp {
    pub fn st_name(&self) -> &'static str {
        match self.st {
            St::NotPolled => "not-polled",
            St::Queued => "queued",
            St::AwaitAck => "await-ack",
            St::AwaitRec => "await-pubrec",
            St::RecOk => "pubrec-received",
            St::RelQueued => "pubrel-queued",
            St::AwaitComp => "await-pubcomp",
            St::Completing(_) => "completing",
            St::Done => "done",
        }
    }
}

pub struct Sys {
    pub w: World,
    pub m: Model,
    pub property: &'static str,
    pub scenario: String,
    pub events: Vec<String>,
    pub classes: Vec<String>,
    pub mark: usize,
    pub dead: bool,
    pub violations: Vec<Violation>,
    pub transitions: u64,
    pub state_keys: Vec<u64>,
    pub auto_exit: bool,
    pub check_stall: bool,
    pub params: serde_json::Value,
    /// deliver every inbound packet one byte per read
    pub bytewise_reads: bool,
    /// cut every delivery into reads of this many bytes (all immediately available)
    pub read_chunk: Option<usize>,
    /// after every event additionally poll every live task whose waker did not fire
    pub sweep: bool,
    /// params["ids"] = [packet id, subscription id] has been applied (hook H2), once
    pub ids_preset: bool,
    /// the Context was dropped in the middle of a write: the packet can never be completed
    pub torn_write: bool,
    /// (value flavour) the broker has sent a PUBLISH that establishes topic alias 2 on this connection
    pub alias_established: std::cell::Cell<bool>,
    /// params["prelude"] has been played (see `run_prelude`)
    pub prelude_done: bool,
    /// the CONNECT options `bring_up` connects with (default: none set). A scenario whose broker sends
    /// topic aliases must announce a Topic Alias Maximum here: a client may hold the server to it.
    pub base_connect: ConnectSpec,
}

impl Sys {
    pub fn new(property: &'static str, scenario: &str, chz: &Chz) -> Sys {
        Sys {
            w: World::new(chz.clone()),
            m: Model::new(),
            property,
            scenario: scenario.to_string(),
            events: vec![],
            classes: vec![],
            mark: 0,
            dead: false,
            violations: vec![],
            transitions: 0,
            state_keys: vec![],
            auto_exit: true,
            check_stall: true,
            params: json!({}),
            bytewise_reads: false,
            read_chunk: None,
            sweep: false,
            ids_preset: false,
            torn_write: false,
            alias_established: std::cell::Cell::new(false),
            prelude_done: false,
            base_connect: ConnectSpec::default(),
        }
    }

    pub fn set_write_mode(&mut self, m: WriteMode) {
        self.w.wire.borrow_mut().write_mode = m;
    }

    fn violation(&mut self, rule: &str, detail: String) {
        let last = self.classes.last().cloned().unwrap_or_else(|| "start".into());
        let v = Violation {
            property: self.property.to_string(),
            rule: format!("{}/{}", self.property, rule),
            witness: format!("{} -> {}", last, rule),
            detail: format!(
                "{}\n events: {}\n observed since last quiescent point: {}",
                detail,
                if self.events.len() > 40 {
                    format!(
                        "({} earlier events) ...; {}",
                        self.events.len() - 20,
                        self.events[self.events.len() - 20..].join("; ")
                    )
                } else {
                    self.events.join("; ")
                },
                self.w
                    .obs_since(self.mark)
                    .iter()
                    .map(|o| o.brief())
                    .collect::<Vec<_>>()
                    .join(" | ")
            ),
            replay: json!({
                "scenario": self.scenario,
                "params": self.params,
                "choices": self.w.chz.choices(),
                "events": if self.events.len() > 200 { self.events[self.events.len() - 200..].to_vec() } else { self.events.clone() },
            }),
        };
        self.violations.push(v);
        self.dead = true;
    }

    /// settle both sides and compare
    pub fn sync(&mut self) {
        self.w.settle();
        if self.sweep {
            // polls without a wakeup must be inert
            let mut tids = vec![];
            if self.w.ctx.alive() && !self.w.ctx.held {
                tids.push(Tid::Ctx);
            }
            for i in 0..self.w.ops.len() {
                if self.w.ops[i].alive() && !self.w.ops[i].held {
                    tids.push(Tid::Op(i));
                }
            }
            for i in 0..self.w.streams.len() {
                if self.w.streams[i].alive() && !self.w.streams[i].held {
                    tids.push(Tid::Stream(i));
                }
            }
            for t in tids {
                if self.w.task(t).alive() {
                    self.w.poll_task(t);
                }
            }
            self.w.settle();
        }
        self.m.observed_size_refusals = self
            .w
            .obs_since(self.mark)
            .iter()
            .filter_map(|o| match o {
                Ob::Done { op, res } if res == "Err:MaximumPacketSizeExceeded" => Some(*op),
                _ => None,
            })
            .collect();
        if self.m.transient_pending && self.w.wire.borrow().read_err_once.is_none() {
            self.m.transient_pending = false;
            let returned = self
                .w
                .obs_since(self.mark)
                .iter()
                .any(|o| matches!(o, Ob::Ctx { cmd, .. } if *cmd == "run" || *cmd == "connect" || *cmd == "authorize"));
            if returned {
                self.m.read_err = true;
                self.m.input_arrived();
            } else {
                self.m.hits.push("transient-error-survived");
            }
        }
        self.m.observed_run_return = self
            .w
            .obs_since(self.mark)
            .iter()
            .any(|o| matches!(o, Ob::Ctx { cmd, .. } if *cmd == "run"));
        self.m.observed_pubrels = self
            .w
            .obs_since(self.mark)
            .iter()
            .filter_map(|o| match o {
                Ob::Wire(CPacket::Pubrel(a)) => Some(a.pid),
                _ => None,
            })
            .collect();
        self.m.settle();
        // the context task ends (and drops the Context) right after run() returned
        if self.auto_exit && self.m.ctx == CtxSt::Returned {
            self.w.cmd(CtxCmd::Exit);
            self.m.drop_ctx();
            self.w.settle();
            self.m.settle();
        }
        let obs = self.w.obs_since(self.mark);
        let mism = self.m.compare(&obs);
        if let Some(mm) = mism.into_iter().next() {
            self.violation(&mm.rule, mm.detail);
            return;
        }
        self.mark = self.w.log_len();
        if self.check_stall {
            if let Some(s) = self.w.stalled_input() {
                self.violation("stalled-input", s);
                return;
            }
        }
        // (a transport whose write half has failed may of course have taken only part of a packet)
        if self.w.partial_out() != 0
            && !self.w.wire.borrow().write_err
            && !self.w.wire.borrow().write_zero
            && !self.w.hard_blocked()
            && self.m.blocked.is_none()
            && !self.torn_write
        {
            let n = self.w.partial_out();
            self.violation(
                "wire-partial-packet",
                format!("{} byte(s) of an incomplete packet on the wire at quiescence", n),
            );
            return;
        }
        if self.w.wire.borrow().zero_len_reads > 0 {
            self.violation(
                "zero-length-read",
                "the client offered a zero-length buffer to poll_read".into(),
            );
            return;
        }
        self.state_keys.push(self.m.state_key());
    }

    /// params["prelude"] = k: whatever the scenario does happens on the SECOND connection of a Context
    /// whose first connection (default options, bare CONNACK) ended at an awkward moment:
    ///  3 = end-of-stream three bytes into an inbound packet; 4 = a failed acknowledgement write with
    ///  more input behind it; 11 = the user's DISCONNECT while seven bytes of an inbound packet had been
    ///  received. Nothing of that may leak into what follows (no disconnection is recorded: no resume).
    fn run_prelude(&mut self, k: u64) {
        let saved = self.auto_exit;
        self.auto_exit = false;
        self.connect_with(
            ConnectSpec::default(),
            SPacket::Connack { session_present: false, reason: 0, props: vec![] },
        );
        if !self.dead {
            self.start_run();
        }
        let first = SPacket::Publish {
            dup: false,
            qos: 1,
            retain: false,
            topic: "in/first".into(),
            pid: Some(4242),
            props: vec![],
            payload: b"first-connection".to_vec(),
        };
        match k {
            3 => self.apply(Ev::PartialThenEof(first, 3)),
            4 => {
                self.apply(Ev::WriteErr);
                self.apply(Ev::DeliverBatch(vec![first.clone(), first]));
            }
            _ => {
                if !self.dead {
                    self.events.push("Deliver(first 7 bytes of a PUBLISH)".into());
                    self.w.deliver(first.encode()[..7].to_vec());
                    self.sync();
                }
                self.apply(Ev::Start(OpSpec::Disconnect(DisconnectSpec::default())));
            }
        }
        if self.dead {
            return;
        }
        self.events.push("Reconnect".into());
        self.classes.push("Reconnect".into());
        self.w.new_wire();
        self.m.new_wire();
        self.auto_exit = saved;
    }

    pub fn connect_with(&mut self, spec: ConnectSpec, connack: SPacket) {
        if let (Some(k), false) = (self.params["prelude"].as_u64(), self.prelude_done) {
            self.prelude_done = true;
            self.run_prelude(k);
            if self.dead {
                return;
            }
        }
        self.alias_established.set(false);
        self.events.push(format!("Connect; {}", connack.brief()));
        self.classes.push("Connect".into());
        self.m.connect(spec.clone());
        self.w.cmd(CtxCmd::Connect(spec));
        self.sync();
        if self.dead {
            return;
        }
        self.m.deliver(connack.clone());
        self.w.deliver(connack.encode());
        self.sync();
    }

    pub fn start_run(&mut self) {
        self.m.run();
        self.w.cmd(CtxCmd::Run);
        self.sync();
        // "identifier flavour": the two counters start next to a boundary of their encodings
        // (packet identifier 0x00ff/0x0100, 0x7fff/0x8000, the wrap; subscription identifier 127/128,
        // 16383/16384) instead of at 1 - nothing in any property depends on the values being small.
        if !self.ids_preset && !self.dead {
            if let Some(a) = self.params["ids"].as_array() {
                let pid = a[0].as_u64().unwrap() as u16;
                let sid = a[1].as_u64().unwrap() as u32;
                self.w.handle().verif_set_ids(pid, sid);
                self.events.push(format!("PresetCounters({}, {})", pid, sid));
                self.ids_preset = true;
            }
        }
    }

    /// Connection "flavours": CONNECT options and CONNACK contents that must not matter for the
    /// property under test. 0 = bare; 1 = every non-will CONNECT option set (incl. the client's OWN
    /// receive maximum / maximum packet size, which limit the server, not the client), Session
    /// Present = 1 and a CONNACK full of other properties.
    pub fn bring_up_fl(&mut self, connack_props: Vec<Prop>, flavour: u64) {
        if flavour == 0 {
            return self.bring_up(connack_props);
        }
        if flavour == 10 {
            // RE-AUTHENTICATION between connect() and run(): CONNECT with an authentication method,
            // the CONNACK (which carries the limits under test) arrives at once, then authorize() with
            // reason 0x19 is answered by AUTH (Success). Everything the CONNACK announced stays in force.
            let mut props = vec![Prop::str(P_AUTH_METHOD, "m")];
            props.extend(connack_props);
            self.connect_with(
                ConnectSpec {
                    auth_method: Some("m".into()),
                    auth_data: Some(vec![1]),
                    ..Default::default()
                },
                SPacket::Connack { session_present: false, reason: 0, props },
            );
            if self.dead {
                return;
            }
            for round in 0..2u8 {
                let a = AuthSpec {
                    reason: Some(0x19),
                    method: Some("m".into()),
                    data: Some(vec![3 + round]),
                    user_props: vec![],
                };
                self.events.push("Authorize(re-authenticate)".into());
                self.classes.push("Authorize".into());
                self.m.authorize(&a);
                self.w.cmd(CtxCmd::Authorize(a));
                self.sync();
                if self.dead {
                    return;
                }
                // (first round: the server continues the exchange; second round: success)
                self.apply(Ev::Deliver(SPacket::Auth {
                    reason: if round == 0 { 0x18 } else { 0 },
                    props: vec![Prop::str(P_AUTH_METHOD, "m"), Prop::bin(P_AUTH_DATA, &[9])],
                    form: 2,
                }));
                if self.dead {
                    return;
                }
            }
            self.start_run();
            return;
        }
        if flavour == 9 {
            // The second connection of a Context whose FIRST connection was made with every CONNECT
            // option set - among them the client's own Receive Maximum 2 and Maximum Packet Size 2000 -
            // while the second is made with default options: nothing of the first CONNECT applies any more.
            self.auto_exit = false;
            self.bring_up_fl(vec![], 1);
            if !self.dead {
                self.apply(Ev::Eof);
            }
            if self.dead {
                return;
            }
            self.events.push("Reconnect".into());
            self.classes.push("Reconnect".into());
            self.w.new_wire();
            self.m.new_wire();
            self.connect_with(
                ConnectSpec::default(),
                SPacket::Connack {
                    session_present: false,
                    reason: 0,
                    props: connack_props,
                },
            );
            if !self.dead {
                self.start_run();
            }
            self.auto_exit = true;
            return;
        }
        if flavour == 8 {
            // The second connection of a Context whose first connection ended when the write of a
            // caller's request (a PINGREQ) failed; that caller is told the context is gone for it.
            self.auto_exit = false;
            self.bring_up(vec![]);
            self.apply(Ev::WriteErr);
            self.apply(Ev::Start(OpSpec::Ping));
            if self.dead {
                return;
            }
            self.events.push("Reconnect".into());
            self.classes.push("Reconnect".into());
            self.w.new_wire();
            self.m.new_wire();
            self.connect_with(
                ConnectSpec::default(),
                SPacket::Connack {
                    session_present: false,
                    reason: 0,
                    props: connack_props,
                },
            );
            if !self.dead {
                self.start_run();
            }
            self.auto_exit = true;
            return;
        }
        if flavour == 5 || flavour == 6 || flavour == 7 {
            // The second connection of a Context whose first connection was ended by the USER's
            // DISCONNECT - written (5), or failing in the write (6) - or by a graceful server
            // DISCONNECT (7), with a QoS 1 publish of another caller still unacknowledged (operation 0;
            // no resume: the session bookkeeping and the identifier counters simply live on).
            self.auto_exit = false;
            self.bring_up(vec![]);
            self.apply(Ev::Start(OpSpec::Publish(PublishSpec::simple(1, "t/first", b"unacknowledged"))));
            if flavour == 6 {
                self.apply(Ev::WriteErr);
            }
            if flavour == 7 {
                self.apply(Ev::Deliver(SPacket::Disconnect { reason: 0, props: vec![], form: 1 }));
            } else {
                self.apply(Ev::Start(OpSpec::Disconnect(DisconnectSpec::default())));
            }
            if self.dead {
                return;
            }
            self.events.push("Reconnect".into());
            self.classes.push("Reconnect".into());
            self.w.new_wire();
            self.m.new_wire();
            self.connect_with(
                ConnectSpec::default(),
                SPacket::Connack {
                    session_present: false,
                    reason: 0,
                    props: connack_props,
                },
            );
            if !self.dead {
                self.start_run();
            }
            self.auto_exit = true;
            return;
        }
        if flavour == 3 || flavour == 4 {
            // The SECOND connection of a Context whose first connection ended at an awkward moment:
            //  3 = end-of-stream three bytes into an inbound packet (left-over bytes in the reader);
            //  4 = the write of an acknowledgement failed (a half-finished answer).
            // Nothing of that may leak into the new connection. (No disconnection is recorded, so this
            // is not a resume: the session bookkeeping simply lives on.)
            self.auto_exit = false;
            self.bring_up(vec![]);
            if self.dead {
                return;
            }
            let first = SPacket::Publish {
                dup: false,
                qos: 1,
                retain: false,
                topic: "in/first".into(),
                pid: Some(4242),
                props: vec![],
                payload: b"first-connection".to_vec(),
            };
            if flavour == 3 {
                self.apply(Ev::PartialThenEof(first, 3));
            } else {
                // (the read that brings the packet also brings the next one: left-over input again)
                self.apply(Ev::WriteErr);
                self.apply(Ev::DeliverBatch(vec![
                    first,
                    SPacket::Publish {
                        dup: false,
                        qos: 0,
                        retain: false,
                        topic: "in/behind".into(),
                        pid: None,
                        props: vec![],
                        payload: b"never looked at".to_vec(),
                    },
                ]));
            }
            if self.dead {
                return;
            }
            self.events.push("Reconnect".into());
            self.classes.push("Reconnect".into());
            self.w.new_wire();
            self.m.new_wire();
            self.connect_with(
                ConnectSpec::default(),
                SPacket::Connack {
                    session_present: false,
                    reason: 0,
                    props: connack_props,
                },
            );
            if !self.dead {
                self.start_run();
            }
            self.auto_exit = true;
            return;
        }
        if flavour == 2 {
            // the CONNACK arrives through authorize() after an extended-authentication round trip
            self.connect_with(
                ConnectSpec {
                    auth_method: Some("m".into()),
                    auth_data: Some(vec![1]),
                    ..Default::default()
                },
                SPacket::Auth {
                    reason: 0x18,
                    props: vec![Prop::str(P_AUTH_METHOD, "m"), Prop::bin(P_AUTH_DATA, &[2])],
                    form: 2,
                },
            );
            if self.dead {
                return;
            }
            let a = AuthSpec {
                reason: Some(0x18),
                method: Some("m".into()),
                data: Some(vec![3]),
                user_props: vec![],
            };
            self.events.push("Authorize".into());
            self.classes.push("Authorize".into());
            self.m.authorize(&a);
            self.w.cmd(CtxCmd::Authorize(a));
            self.sync();
            if self.dead {
                return;
            }
            let mut props = vec![Prop::str(P_AUTH_METHOD, "m")];
            props.extend(connack_props);
            self.apply(Ev::Deliver(SPacket::Connack {
                session_present: false,
                reason: 0,
                props,
            }));
            if self.dead {
                return;
            }
            self.start_run();
            return;
        }
        let spec = ConnectSpec {
            client_id: Some("flavoured".into()),
            keep_alive: Some(10),
            // (the client's own Receive Maximum binds the BROKER: 2 where the scenario's broker never has
            // more than two QoS>0 deliveries open at once, params.own_rm where it has)
            receive_maximum: Some(self.params["own_rm"].as_u64().unwrap_or(2) as u16),
            // (large enough for everything the scenarios' brokers send: a client may enforce its own
            // limits on inbound traffic; small enough to sit below the bigger requests of C12 / C06)
            maximum_packet_size: Some(2000),
            topic_alias_maximum: Some(3),
            request_response_information: Some(true),
            // (explicitly set, but to 1: with 0 a client may treat the reason strings and user properties
            // our broker puts into acknowledgements as a protocol error [MQTT-3.1.2-29])
            request_problem_information: Some(true),
            user_props: vec![("a".into(), "b".into())],
            clean_start: Some(false),
            username: Some("u".into()),
            password: Some(vec![1, 2, 3]),
            ..Default::default()
        };
        let mut props = vec![
            Prop::u16(P_TOPIC_ALIAS_MAXIMUM, 7),
            Prop::str(P_ASSIGNED_CLIENT_ID, "srv-assigned"),
        ];
        props.extend(connack_props);
        props.extend(vec![
            Prop::u16(P_SERVER_KEEP_ALIVE, 20),
            Prop::byte(P_RETAIN_AVAILABLE, 0),
            Prop::byte(P_MAXIMUM_QOS, 1),
            // (the server's capabilities bind the server's answers, not what the client may ask for)
            Prop::byte(P_WILDCARD_SUB_AVAILABLE, 0),
            Prop::byte(P_SHARED_SUB_AVAILABLE, 0),
            Prop::user("srv", "x"),
            Prop::str(P_RESPONSE_INFO, "ri"),
        ]);
        self.connect_with(
            spec,
            SPacket::Connack {
                session_present: true,
                reason: 0,
                props,
            },
        );
        if self.dead {
            return;
        }
        self.start_run();
    }

    /// connect (default options), CONNACK with the given properties, run()
    pub fn bring_up(&mut self, connack_props: Vec<Prop>) {
        // params["early"] = n: n requests are made before connect() - they wait in the queue and are
        // served, like any other, once run() is; the handle is usable from Context::new() on
        if let Some(n) = self.params["early"].as_u64() {
            let specs = [
                OpSpec::Publish(PublishSpec::simple(1, "t/early", b"e1")),
                OpSpec::Ping,
                OpSpec::Publish(PublishSpec::simple(2, "t/early", b"e2")),
                OpSpec::Subscribe(SubscribeSpec::simple("s/early")),
            ];
            if self.m.ops.is_empty() {
                for spec in specs.iter().take(n as usize) {
                    self.apply(Ev::Start(spec.clone()));
                }
            }
        }
        self.connect_with(
            self.base_connect.clone(),
            SPacket::Connack {
                session_present: false,
                reason: 0,
                props: connack_props,
            },
        );
        if self.dead {
            return;
        }
        self.start_run();
    }

    pub fn apply(&mut self, ev: Ev) {
        if self.dead {
            return;
        }
        // "value flavour": the same histories with requests and inbound messages that carry unusual
        // but legal content (retain, every property, long topics, empty / 600-byte payloads, several
        // filters with every option) instead of the plain ones the scenarios name - no property makes
        // the protocol behaviour depend on what a message contains
        let ev = if self.params["vals"].as_u64() == Some(1) { self.enrich(ev) } else { ev };
        self.transitions += 1;
        self.events.push(ev.brief());
        self.classes.push(ev.class(&self.m));
        match ev {
            Ev::Start(spec) => {
                let a = self.m.start(spec.clone());
                let b = self.w.start_op(spec);
                assert_eq!(a, b, "harness: op index mismatch");
            }
            Ev::StartW(spec) => {
                let a = self.m.start_on_worker(spec.clone(), 1);
                let b = self.w.start_op_worker(spec, 1);
                assert_eq!(a, b, "harness: op index mismatch");
            }
            Ev::StartWC(spec) => {
                let a = self.m.start_on_worker(spec.clone(), 2);
                let b = self.w.start_op_worker(spec, 2);
                assert_eq!(a, b, "harness: op index mismatch");
            }
            Ev::StartHeld(spec) => {
                // (the library future is created now and polled later, see World::start_op_eager)
                let a = self.m.start(spec.clone());
                let b = self.w.start_op_eager(spec);
                assert_eq!(a, b, "harness: op index mismatch");
                self.m.ops[a].held = true;
                self.w.ops[b].held = true;
            }
            Ev::Cancel(i) => {
                self.m.cancel(i);
                self.w.drop_task(Tid::Op(i));
            }
            Ev::Hold(t) => {
                self.w.task_mut_pub(t).held = true;
                match t {
                    Tid::Ctx => self.m.ctx_held = true,
                    Tid::Op(i) => self.m.ops[i].held = true,
                    Tid::Stream(i) => self.m.streams[i].held = true,
                }
            }
            Ev::Release(t) => {
                self.w.task_mut_pub(t).held = false;
                match t {
                    Tid::Ctx => self.m.ctx_held = false,
                    Tid::Op(i) => self.m.ops[i].held = false,
                    Tid::Stream(i) => self.m.streams[i].held = false,
                }
            }
            Ev::Spurious(t) => {
                // no model effect: a poll without a wakeup must be inert
                if let Tid::Op(_) = t {
                    self.m.spurious_op();
                }
                self.w.poll_task(t);
            }
            Ev::Deliver(p) => {
                if self.m.block_armed {
                    let needs_ack = matches!(&p, SPacket::Publish { qos, .. } if *qos > 0)
                        || matches!(&p, SPacket::Ack { ty: 6, .. });
                    assert!(!needs_ack, "harness: inbound packet that must be acknowledged while a write block is armed");
                }
                self.m.deliver(p.clone());
                self.deliver_chunked(p.encode());
            }
            Ev::DeliverBatch(v) => {
                let mut bytes = vec![];
                for p in v {
                    bytes.extend(p.encode());
                    self.m.deliver(p);
                }
                self.deliver_chunked(bytes);
            }
            Ev::DeliverBytewise(p) => {
                self.m.deliver(p.clone());
                for b in p.encode() {
                    self.w.deliver(vec![b]);
                }
            }
            Ev::DeliverSplit(p, cut) => {
                let bytes = p.encode();
                let cut = cut.min(bytes.len() - 1).max(1);
                self.w.deliver(bytes[..cut].to_vec());
                // first part only: nothing may happen yet, and nothing may be lost
                self.sync();
                if self.dead {
                    return;
                }
                self.m.deliver(p);
                self.w.deliver(bytes[cut..].to_vec());
            }
            Ev::Eof => {
                self.m.eof = true;
                self.m.input_arrived();
                self.w.eof();
            }
            Ev::PartialThenEof(p, n) => {
                let bytes = p.encode();
                let n = n.min(bytes.len() - 1).max(1);
                self.w.deliver(bytes[..n].to_vec());
                self.m.eof = true;
                self.m.input_arrived();
                self.w.eof();
            }
            Ev::ReadErr => {
                self.m.read_err = true;
                self.m.input_arrived();
                self.w.read_error();
            }
            Ev::ReadErrOnce => {
                // A transient error (Err once, the transport is fine afterwards). Ending the
                // connection with SocketClosed and carrying on are both legitimate answers (a client
                // may retry Interrupted / WouldBlock): the implementation's answer is followed. What
                // is not legitimate is to sit there without a wakeup - that shows as unread input at
                // the next delivery.
                let k = self.w.wire.borrow().transient_kind;
                self.w.read_error_once(k);
                // (what the client made of it is decided in `sync`, once it has seen the error - which
                // may be later, if the context task is held back)
                self.m.transient_pending = true;
            }
            Ev::WriteErr => {
                self.m.write_err = true;
                self.w.write_error();
            }
            Ev::TakeStream(op) => {
                let a = self.m.take_stream(op);
                let b = self.w.take_stream(op).expect("harness: no SubscribeRsp to take");
                assert_eq!(a, b);
            }
            Ev::DropRsp(op) => {
                self.m.drop_rsp(op);
                assert!(self.w.drop_rsp(op));
            }
            Ev::DropStream(s) => {
                self.m.drop_stream(s);
                self.w.drop_task(Tid::Stream(s));
            }
            Ev::DropMaster => {
                self.m.drop_master();
                self.w.drop_master();
            }
            Ev::DropCtx => {
                if self.m.blocked.is_some() {
                    self.torn_write = true;
                }
                self.m.drop_ctx();
                self.w.drop_task(Tid::Ctx);
            }
            Ev::WriteBlock(k) => {
                assert!(k <= 1, "harness: every packet is at least 2 bytes long; larger budgets would need byte-exact lengths in the model");
                assert!(self.m.inbox.is_empty(), "harness: write block armed with inbound packets pending");
                self.m.block_armed = true;
                self.w.arm_write_block(k);
            }
            Ev::WriteUnblock => {
                self.m.unblock();
                self.w.lift_write_block();
            }
        }
        self.sync();
    }

    /// topic aliases only as far as the client allowed them in its CONNECT (Topic Alias Maximum), and
    /// an alias-only PUBLISH (empty topic) only after a PUBLISH that established the alias
    fn enrich_in(&self, p: SPacket) -> SPacket {
        let tam = self.m.connect_spec.as_ref().and_then(|c| c.topic_alias_maximum).unwrap_or(0);
        let established = self.alias_established.get();
        let (p, est) = enrich_in(p, tam, established);
        self.alias_established.set(est);
        p
    }

    fn enrich(&self, ev: Ev) -> Ev {
        let n = self.m.ops.len();
        match ev {
            Ev::Start(s) => Ev::Start(enrich_op(s, n)),
            Ev::StartHeld(s) => Ev::StartHeld(enrich_op(s, n)),
            Ev::StartW(s) => Ev::StartW(enrich_op(s, n)),
            Ev::StartWC(s) => Ev::StartWC(enrich_op(s, n)),
            Ev::Deliver(p) => Ev::Deliver(self.enrich_in(p)),
            Ev::DeliverBatch(v) => Ev::DeliverBatch(v.into_iter().map(|p| self.enrich_in(p)).collect()),
            Ev::DeliverBytewise(p) => Ev::DeliverBytewise(self.enrich_in(p)),
            Ev::DeliverSplit(p, c) => Ev::DeliverSplit(self.enrich_in(p), c),
            other => other,
        }
    }

    /// the persistent write block is armed or active
    pub fn write_block_pending(&self) -> bool {
        self.m.block_armed || self.m.blocked.is_some()
    }

    fn deliver_chunked(&mut self, bytes: Vec<u8>) {
        let k = if self.bytewise_reads { Some(1) } else { self.read_chunk };
        match k {
            Some(k) => {
                for c in bytes.chunks(k.max(1)) {
                    self.w.deliver(c.to_vec());
                }
            }
            None => self.w.deliver(bytes),
        }
    }

    /// release everything that is held and let the system come to rest
    pub fn finish(&mut self) {
        if self.dead {
            return;
        }
        if self.write_block_pending() {
            self.apply(Ev::WriteUnblock);
            if self.dead {
                return;
            }
        }
        let mut any = false;
        if self.w.ctx.held {
            self.w.ctx.held = false;
            self.m.ctx_held = false;
            any = true;
        }
        for i in 0..self.w.ops.len() {
            if self.w.ops[i].held {
                self.w.ops[i].held = false;
                self.m.ops[i].held = false;
                any = true;
            }
        }
        for i in 0..self.w.streams.len() {
            if self.w.streams[i].held {
                self.w.streams[i].held = false;
                self.m.streams[i].held = false;
                any = true;
            }
        }
        if any {
            self.events.push("ReleaseAll".into());
            self.classes.push("ReleaseAll".into());
            self.sync();
        }
    }

    /// hand the results of this execution to the explorer
    pub fn report(self, ex: &mut Exec, nontrivial_rules: &[&str]) {
        ex.transitions = self.transitions;
        ex.state_keys = self.state_keys;
        ex.trace_hash = self.w.trace_hash() ^ pvcore::explore::hash_str(&self.events.join(";"));
        ex.nontrivial = self.m.hits.iter().any(|h| nontrivial_rules.contains(h));
        ex.rule_hits = self.m.hits.clone();
        ex.sample = Some(json!({"events": self.events, "choices": self.w.chz.choices()}));
        ex.violations = self.violations;
        ex.evaluations = 1;
    }

    // ---- helpers to build conformant broker answers for outstanding operations

    /// conformant acknowledgement for op `i` in its current state (None if nothing is due)
    /// (see `ack_for`) a write error may be injected unless a successful PUBREC is on its way to, or
    /// has reached, a QoS 2 publish whose PUBREL is still to come while something is being held back
    pub fn write_err_allowed(&self) -> bool {
        let held_somewhere = self.m.ctx_held || !self.m.inbox.is_empty() || self.m.ops.iter().any(|o| o.held);
        let rec_open = self.m.ops.iter().any(|o| {
            matches!(&o.spec, OpSpec::Publish(p) if p.qos() == 2) && matches!(o.st, St::AwaitRec | St::RecOk | St::RelQueued)
        });
        !self.m.write_err && !(held_somewhere && rec_open)
    }

    pub fn ack_for(&self, i: usize, reason: u8, tag: &str) -> Option<SPacket> {
        // (after a violation `apply` is inert: an operation a scenario believes it has started may not exist)
        let o = self.m.ops.get(i)?;
        let pid = o.pid;
        // an acknowledgement that is already on its way (context not polled yet) is not sent twice
        if let Some(pid) = pid {
            let in_flight = self.m.inbox.iter().any(|p| match p {
                SPacket::Ack { pid: q, ty, .. } => *q == pid && *ty != 6,
                SPacket::Suback { pid: q, .. } | SPacket::Unsuback { pid: q, .. } => *q == pid,
                _ => false,
            });
            if in_flight {
                return None;
            }
        }
        // A successful PUBREC makes the client write a PUBREL - at once (context-driven) or when the
        // publish() future is polled next (future-driven); both are legitimate. While the write half is
        // broken that difference would decide WHEN run() fails relative to the rest of a batch, which
        // no property prescribes: such a PUBREC is only sent when nothing else is pending.
        if reason < 0x80
            && matches!((&o.spec, &o.st), (OpSpec::Publish(_), St::AwaitRec))
            && self.m.write_err
            && (o.held || self.m.ctx_held || !self.m.inbox.is_empty())
        {
            return None;
        }
        let props = if tag.is_empty() {
            vec![]
        } else {
            // (several user properties, one name repeated non-adjacently, names out of order)
            vec![
                // (every second operation: a Reason String of length 0 - present, not absent; round 16, C05o)
                Prop::str(P_REASON_STRING, if i % 2 == 1 { "" } else { tag }),
                Prop::user("op", tag),
                Prop::user("b", "1"),
                Prop::user("op", "again"),
                Prop::user("a", ""),
                Prop::user("b", "1"),
            ]
        };
        let form = if !tag.is_empty() { 4 } else if reason == 0 { 2 } else { 3 };
        match (&o.spec, &o.st) {
            (OpSpec::Publish(p), St::AwaitAck) if p.qos() == 1 => Some(SPacket::Ack {
                ty: 4,
                pid: pid?,
                reason,
                props,
                form,
            }),
            (OpSpec::Publish(_), St::AwaitRec) => Some(SPacket::Ack {
                ty: 5,
                pid: pid?,
                reason,
                props,
                form,
            }),
            (OpSpec::Publish(_), St::AwaitComp) => Some(SPacket::Ack {
                ty: 7,
                pid: pid?,
                reason,
                props,
                form,
            }),
            (OpSpec::Subscribe(s), St::AwaitAck) => Some(SPacket::Suback {
                pid: pid?,
                props,
                reasons: s
                    .filters
                    .iter()
                    .enumerate()
                    // (every second multi-filter subscription: granted and refused filters mixed; round 16, C14o)
                    .map(|(j, _)| if reason >= 0x80 || (i % 2 == 1 && j % 2 == 1) { 0x80 } else { 0 })
                    .collect(),
            }),
            (OpSpec::Unsubscribe(s), St::AwaitAck) => Some(SPacket::Unsuback {
                pid: pid?,
                props,
                reasons: s
                    .filters
                    .iter()
                    .map(|_| if reason >= 0x80 { 0x80 } else { 0 })
                    .collect(),
            }),
            _ => None,
        }
    }
}

impl World {
    pub fn task_mut_pub(&mut self, t: Tid) -> &mut Task {
        match t {
            Tid::Ctx => &mut self.ctx,
            Tid::Op(i) => &mut self.ops[i],
            Tid::Stream(i) => &mut self.streams[i],
        }
    }
}

/// see `Sys::apply` ("value flavour"): the n-th operation of an execution gets the n-th decoration
pub fn enrich_op(spec: OpSpec, n: usize) -> OpSpec {
    match spec {
        OpSpec::Publish(mut p) => {
            match n % 4 {
                0 => {
                    p.retain = Some(true);
                    p.payload = Some(vec![]);
                }
                1 => {
                    p.pfi = Some(true);
                    p.topic_alias = Some(1);
                    p.expiry = Some(u32::MAX);
                    p.correlation = Some(vec![0, 0xff, 0x30, 0x62, 0xe0]);
                    p.response_topic = Some("rsp/\u{fb}".into());
                    p.content_type = Some(String::new());
                    p.user_props = vec![("k".into(), "1".into()), ("".into(), "".into()), ("k".into(), "2".into())];
                    p.topic = Some(format!("{}/{}", p.topic.unwrap_or_default(), "t".repeat(130)));
                }
                2 => {
                    p.retain = Some(true);
                    let mut pl = p.payload.unwrap_or_default();
                    // (bytes that look like fixed headers and length fields)
                    pl.extend((0..200u32).map(|i| [0x00u8, 0xff, 0x30, 0x82, 0x7f, 0x80][(i % 6) as usize]));
                    p.payload = Some(pl);
                    p.topic = Some(format!("$share/\u{fc}/{}", p.topic.unwrap_or_default()));
                }
                _ => {
                    // the alias-only form: a zero-length Topic Name next to a Topic Alias
                    p.topic = Some(String::new());
                    p.topic_alias = Some(1);
                }
            }
            OpSpec::Publish(p)
        }
        OpSpec::Subscribe(mut s) => {
            if n % 3 != 2 {
                // every option at its non-default value (one filter: the whole call asks for Retain
                // Handling 2 / No Local / Retain As Published; two filters: a mix)
                if let Some(f) = s.filters.first_mut() {
                    f.qos = Some(2);
                    f.no_local = Some(true);
                    f.retain_as_published = Some(true);
                    f.retain_handling = Some(2);
                }
                s.user_props = vec![("u".into(), "v".into())];
            }
            if n % 3 == 1 {
                s.filters.push(FilterSpec {
                    filter: "second/+/#".into(),
                    qos: Some(1),
                    no_local: None,
                    retain_as_published: None,
                    retain_handling: Some(1),
                });
            }
            OpSpec::Subscribe(s)
        }
        OpSpec::Unsubscribe(mut s) => {
            if n % 2 == 1 {
                s.filters.push("second/+/#".into());
                s.user_props = vec![("u".into(), "v".into()), ("u".into(), "w".into())];
            }
            OpSpec::Unsubscribe(s)
        }
        other => other,
    }
}

/// an inbound PUBLISH is decorated by a function of its own payload, so that a re-delivery of the
/// same message looks the same; `tam` = the Topic Alias Maximum the client announced, `established` =
/// alias 2 has been introduced on this connection; returns the packet and the new `established`
pub fn enrich_in(p: SPacket, tam: u16, established: bool) -> (SPacket, bool) {
    match p {
        SPacket::Publish { dup, qos, retain, topic, pid, mut props, mut payload } => {
            let n = payload.iter().map(|b| *b as usize).sum::<usize>() % 4;
            let (mut retain, mut topic) = (retain, topic);
            let mut est = established;
            if dup && tam >= 2 && established && !props.iter().any(|p| p.id == P_TOPIC_ALIAS) {
                // a repetition (DUP = 1) sent in the alias-only form: same packet identifier, other bytes
                // in the Topic Name field - whether it is a re-delivery is decided by the identifier
                topic = String::new();
                props.push(Prop::u16(P_TOPIC_ALIAS, 2));
                return (SPacket::Publish { dup, qos, retain, topic, pid, props, payload }, est);
            }
            match n {
                0 => retain = true,
                1 => {
                    // (crosses the 512-byte read step; every property a PUBLISH may carry)
                    payload.extend(std::iter::repeat(0x30u8).take(600));
                    // (a property other than User Property may appear once: whatever the scenario's own
                    // packet already carries is left alone)
                    let has = |props: &Vec<Prop>, id: u8| props.iter().any(|p| p.id == id);
                    if !has(&props, P_PAYLOAD_FORMAT) {
                        props.insert(0, Prop::byte(P_PAYLOAD_FORMAT, 1));
                    }
                    if !has(&props, P_MESSAGE_EXPIRY) {
                        props.push(Prop::u32(P_MESSAGE_EXPIRY, 0));
                    }
                    props.push(Prop::user("k", "1"));
                    if !has(&props, P_CONTENT_TYPE) {
                        props.push(Prop::str(P_CONTENT_TYPE, "c/t"));
                    }
                    if !has(&props, P_RESPONSE_TOPIC) {
                        props.push(Prop::str(P_RESPONSE_TOPIC, "r"));
                    }
                    props.push(Prop::user("k", "2"));
                    if !has(&props, P_CORRELATION_DATA) {
                        props.push(Prop::bin(P_CORRELATION_DATA, &[0, 1, 2]));
                    }
                    if tam >= 2 && !props.iter().any(|p| p.id == P_TOPIC_ALIAS) {
                        props.push(Prop::u16(P_TOPIC_ALIAS, 2));
                        est = true;
                    }
                }
                2 => {
                    topic = format!("{}/\u{e9}{}", topic, "x".repeat(200));
                    retain = true;
                }
                _ => {
                    if tam >= 2 && established && !props.iter().any(|p| p.id == P_TOPIC_ALIAS) {
                        // the alias alone: a zero-length Topic Name is legal here
                        topic = String::new();
                        props.push(Prop::u16(P_TOPIC_ALIAS, 2));
                    }
                }
            }
            (SPacket::Publish { dup, qos, retain, topic, pid, props, payload }, est)
        }
        other => (other, established),
    }
}
