//! Mock transport: `MockRead` / `MockWrite` over one shared `Wire`.
//!
//! Contract-conformant: a waker is stored iff `Pending` is returned; `Ok(0)` only at EOF (or for an
//! empty buffer, which is how a wrapped length computation in the library shows up).

use pvcore::explore::Chz;
use futures::io::{AsyncRead, AsyncWrite};
use std::cell::RefCell;
use std::collections::VecDeque;
use std::io;
use std::pin::Pin;
use std::rc::Rc;
use std::task::{Context, Poll, Waker};

#[derive(Clone, Copy, Debug, PartialEq, Eq)]
pub enum WriteMode {
    /// accept everything offered (default)
    All,
    /// accept one byte per call
    OneByte,
    /// answer Pending before every write call (the harness wakes the writer at quiescence)
    PendingEach,
    /// ask the chooser at every call: deviation {accept all, accept 1 byte, accept half, Pending}
    Explore,
    /// every packet: half accepted, then Pending once, then the rest (partial write followed by Pending)
    HalfThenPending,
}

pub struct Wire {
    // ---- read side
    pub staged: VecDeque<Vec<u8>>,
    pub eof: bool,
    pub read_err: bool,
    /// the io::ErrorKind of injected read / write errors
    pub read_err_kind: io::ErrorKind,
    pub write_err_kind: io::ErrorKind,
    /// the kind of a transient read error (`WouldBlock` / `Interrupted` only ever appear as transient
    /// errors: a transport that answers them for ever does not exist, and a client may retry them)
    pub transient_kind: io::ErrorKind,
    /// a transient read error: the next poll_read answers Err(kind) once, then carries on
    pub read_err_once: Option<io::ErrorKind>,
    /// the write half answers Ok(0) to every non-empty write (a closed pipe in some transports)
    pub write_zero: bool,
    /// answer Ok(0) to every non-empty write from the (n+1)-th write call on
    pub write_zero_after: Option<u64>,
    /// how often the Ok(0) answer was really given
    pub zero_answers: u64,
    /// accept at most this many bytes per write call (all modes)
    pub max_accept: Option<usize>,
    /// what poll_close answers (the library need not call it at all): 0 = Ok, 1 = Err, 2 = Pending once
    pub close_mode: u8,
    pub close_polls: u64,
    pub read_waker: Option<Waker>,
    /// true = inbound bytes are withheld (see DESIGN 3.3, gating rule)
    pub gate_closed: bool,
    pub zero_len_reads: u64,
    pub reads: u64,
    pub bytes_read: u64,
    pub eof_reported: bool,
    // ---- write side
    pub out: Vec<u8>,
    pub write_mode: WriteMode,
    pub write_err: bool,
    /// fail every write call after this many successful calls
    pub write_err_after: Option<u64>,
    /// persistent back-pressure: Some(n) = the transport accepts n more bytes and then answers
    /// Pending until the harness lifts the block (an event of its own, unlike the Pending answers of
    /// the write modes, which are resolved at the next quiescence)
    pub hard_budget: Option<usize>,
    pub write_waker: Option<Waker>,
    pub write_blocked: bool,
    pub pending_armed: bool,
    pub htp_phase: u8,
    pub writes: u64,
    /// poll_write_vectored gathers all slices (see there); on by default
    pub gather: bool,
    pub gathered_calls: u64,
    pub chz: Option<Chz>,
}

impl Wire {
    pub fn new() -> Rc<RefCell<Wire>> {
        Rc::new(RefCell::new(Wire {
            staged: VecDeque::new(),
            eof: false,
            read_err: false,
            read_err_kind: io::ErrorKind::ConnectionReset,
            write_err_kind: io::ErrorKind::BrokenPipe,
            transient_kind: io::ErrorKind::ConnectionReset,
            read_err_once: None,
            write_zero: false,
            write_zero_after: None,
            zero_answers: 0,
            max_accept: None,
            close_mode: 0,
            close_polls: 0,
            read_waker: None,
            gate_closed: false,
            zero_len_reads: 0,
            reads: 0,
            bytes_read: 0,
            eof_reported: false,
            out: Vec::new(),
            write_mode: WriteMode::All,
            write_err: false,
            write_err_after: None,
            hard_budget: None,
            write_waker: None,
            write_blocked: false,
            pending_armed: true,
            htp_phase: 0,
            writes: 0,
            gather: true,
            gathered_calls: 0,
            chz: None,
        }))
    }
    pub fn unread(&self) -> usize {
        self.staged.iter().map(|c| c.len()).sum()
    }
    pub fn wake_reader(&mut self) {
        if let Some(w) = self.read_waker.take() {
            w.wake();
        }
    }
    pub fn wake_writer(&mut self) {
        self.write_blocked = false;
        if let Some(w) = self.write_waker.take() {
            w.wake();
        }
    }
}

pub struct MockRead(pub Rc<RefCell<Wire>>);
pub struct MockWrite(pub Rc<RefCell<Wire>>);

impl AsyncRead for MockRead {
    fn poll_read(
        self: Pin<&mut Self>,
        cx: &mut Context<'_>,
        buf: &mut [u8],
    ) -> Poll<io::Result<usize>> {
        let mut w = self.0.borrow_mut();
        w.reads += 1;
        if buf.is_empty() {
            w.zero_len_reads += 1;
            return Poll::Ready(Ok(0));
        }
        if w.gate_closed {
            w.read_waker = Some(cx.waker().clone());
            return Poll::Pending;
        }
        if let Some(front) = w.staged.front_mut() {
            let n = front.len().min(buf.len());
            buf[..n].copy_from_slice(&front[..n]);
            if n == front.len() {
                w.staged.pop_front();
            } else {
                front.drain(..n);
            }
            w.bytes_read += n as u64;
            return Poll::Ready(Ok(n));
        }
        if let Some(k) = w.read_err_once.take() {
            // (after whatever had been staged before it, like the permanent faults)
            return Poll::Ready(Err(io::Error::new(k, "mock (transient)")));
        }
        if w.read_err {
            w.eof_reported = true;
            let k = w.read_err_kind;
            return Poll::Ready(Err(io::Error::new(k, "mock")));
        }
        if w.eof {
            w.eof_reported = true;
            return Poll::Ready(Ok(0));
        }
        w.read_waker = Some(cx.waker().clone());
        Poll::Pending
    }
}

impl MockWrite {
    /// `first`: for a gathered write, the length of the first slice of the concatenation `buf`
    fn accept(&self, cx: &mut Context<'_>, buf: &[u8], first: Option<usize>) -> Poll<io::Result<usize>> {
        let mut w = self.0.borrow_mut();
        w.writes += 1;
        w.write_blocked = false;
        if let Some(n) = w.write_err_after {
            if w.writes > n {
                w.write_err = true;
            }
        }
        if w.write_err {
            return Poll::Ready(Err(io::Error::new(w.write_err_kind, "mock")));
        }
        if let Some(n) = w.write_zero_after {
            if w.writes > n {
                w.write_zero = true;
            }
        }
        if buf.is_empty() || w.write_zero {
            if !buf.is_empty() {
                w.zero_answers += 1;
            }
            return Poll::Ready(Ok(0));
        }
        if let Some(b) = w.hard_budget {
            if b == 0 {
                w.write_blocked = true;
                w.write_waker = Some(cx.waker().clone());
                return Poll::Pending;
            }
            let n = b.min(buf.len());
            w.hard_budget = Some(b - n);
            w.out.extend_from_slice(&buf[..n]);
            return Poll::Ready(Ok(n));
        }
        let mode = w.write_mode;
        let n = match mode {
            WriteMode::All => buf.len(),
            WriteMode::OneByte => 1,
            WriteMode::PendingEach => {
                if w.pending_armed {
                    w.pending_armed = false;
                    w.write_blocked = true;
                    w.write_waker = Some(cx.waker().clone());
                    return Poll::Pending;
                }
                w.pending_armed = true;
                buf.len()
            }
            WriteMode::HalfThenPending => {
                // phase 0: accept half; phase 1: Pending; phase 2: accept the rest
                match w.htp_phase {
                    0 if buf.len() > 1 => {
                        w.htp_phase = 1;
                        buf.len() / 2
                    }
                    1 => {
                        w.htp_phase = 2;
                        w.write_blocked = true;
                        w.write_waker = Some(cx.waker().clone());
                        return Poll::Pending;
                    }
                    _ => {
                        w.htp_phase = 0;
                        buf.len()
                    }
                }
            }
            WriteMode::Explore => {
                let chz = w.chz.clone().expect("Explore write mode needs a chooser");
                // A Pending answer is never given twice in a row for the same call.
                // (gathered write over several slices: one more way - everything of the first slice and
                // one byte of the second, i.e. a partial write that ends just inside the next packet)
                let into_next = first.filter(|f| *f < buf.len());
                let base = if into_next.is_some() { 4 } else { 3 };
                let opts = if w.pending_armed { base + 1 } else { base };
                match chz.deviate(opts) {
                    0 => buf.len(),
                    1 => 1,
                    2 => (buf.len() / 2).max(1),
                    3 if into_next.is_some() => into_next.unwrap() + 1,
                    _ => {
                        w.pending_armed = false;
                        w.write_blocked = true;
                        w.write_waker = Some(cx.waker().clone());
                        return Poll::Pending;
                    }
                }
            }
        };
        let n = match w.max_accept {
            Some(m) => n.min(m.max(1)),
            None => n,
        };
        w.pending_armed = true;
        w.out.extend_from_slice(&buf[..n]);
        Poll::Ready(Ok(n))
    }
}

impl AsyncWrite for MockWrite {
    fn poll_write(
        self: Pin<&mut Self>,
        cx: &mut Context<'_>,
        buf: &[u8],
    ) -> Poll<io::Result<usize>> {
        self.accept(cx, buf, None)
    }

    /// A transport that really gathers (a socket's writev): the slices are taken as one run of bytes,
    /// so a partial write may end anywhere - also inside a later slice. (`Wire::gather` off: the
    /// default behaviour of `AsyncWrite`, the first non-empty slice only.)
    fn poll_write_vectored(
        self: Pin<&mut Self>,
        cx: &mut Context<'_>,
        bufs: &[io::IoSlice<'_>],
    ) -> Poll<io::Result<usize>> {
        let gather = self.0.borrow().gather;
        let first = bufs.iter().find(|b| !b.is_empty()).map(|b| b.len());
        if !gather {
            let b = bufs.iter().find(|b| !b.is_empty()).map_or(&[][..], |b| &**b);
            return self.accept(cx, b, None);
        }
        let all: Vec<u8> = bufs.iter().flat_map(|b| b.iter().copied()).collect();
        self.0.borrow_mut().gathered_calls += 1;
        self.accept(cx, &all, first)
    }

    fn poll_flush(self: Pin<&mut Self>, _cx: &mut Context<'_>) -> Poll<io::Result<()>> {
        let w = self.0.borrow();
        if w.write_err {
            return Poll::Ready(Err(io::Error::new(w.write_err_kind, "mock")));
        }
        Poll::Ready(Ok(()))
    }

    fn poll_close(self: Pin<&mut Self>, cx: &mut Context<'_>) -> Poll<io::Result<()>> {
        let mut w = self.0.borrow_mut();
        w.close_polls += 1;
        match w.close_mode {
            1 => Poll::Ready(Err(io::Error::new(io::ErrorKind::NotConnected, "mock: close failed"))),
            2 if w.close_polls == 1 => {
                // not yet; the shutdown completes a little later (the waker is called at once, the
                // next poll succeeds)
                cx.waker().wake_by_ref();
                Poll::Pending
            }
            _ => Poll::Ready(Ok(())),
        }
    }
}
