//! Reference model of the *client's obligations* (what the 17 properties say a correct client does),
//! stepped by the same events as the real system and mirroring the executor's canonical polling
//! order, so that after every settle the set of new observations is fully determined.
//!
//! It leaves open what the properties leave open (e.g. which error `run()` returns for undecodable
//! input, the reason code inside an acknowledgement the client writes).

use crate::spec::*;
use crate::world::Ob;
use pvcore::refcodec::*;
use std::collections::{BTreeSet, VecDeque};

#[derive(Clone, Debug, PartialEq)]
pub enum ResPat {
    Exact(String),
    AnyErr,
}

#[derive(Clone, Debug, PartialEq)]
pub enum WirePat {
    /// the request packet of op (packet / subscription identifiers are learned from the wire)
    Request { op: usize },
    Pubrel { pid: u16 },
    /// a PUBREL re-sent on a resumed session: part of the prescribed resend sequence (C17), in order
    PubrelResent { pid: u16 },
    /// acknowledgement written by the client: ty 4 PUBACK, 5 PUBREC, 7 PUBCOMP; reason unconstrained
    Ack { ty: u8, pid: u16 },
    Exact(CPacket),
    /// re-sent PUBLISH of op on a resumed session (DUP=1, same id and content)
    Resend { op: usize },
}

#[derive(Clone, Debug, PartialEq)]
pub enum Expect {
    Wire(WirePat),
    Done { op: usize, res: ResPat },
    Item { stream: usize, dig: String },
    StreamEnd { stream: usize },
    Ctx { cmd: &'static str, res: ResPat },
}

#[derive(Clone, Debug, PartialEq)]
pub enum St {
    NotPolled,
    Queued,
    /// written; waiting for PUBACK / SUBACK / UNSUBACK / PINGRESP
    AwaitAck,
    AwaitRec,
    /// PUBREC (< 0x80) handed to the operation, which has not been polled since
    RecOk,
    RelQueued,
    AwaitComp,
    /// result handed over, operation not polled since
    Completing(ResPat),
    Done,
}

#[derive(Clone, Debug)]
pub struct MOp {
    pub spec: OpSpec,
    pub st: St,
    pub alive: bool,
    pub held: bool,
    pub pid: Option<u16>,
    pub sub: Option<usize>,
    /// PUBLISH was put on the wire and its handshake is not finished (for C10/C11/C17 accounting)
    pub inflight: bool,
    /// nothing is prescribed about this operation any more (it may fail or stay pending)
    pub lenient: bool,
    /// issued on the long-lived worker handle: the handle is not dropped when the operation completes
    pub keeps_handle: bool,
}


#[derive(Clone, Debug)]
pub struct MSub {
    pub op: usize,
    pub sub_id: Option<u32>,
    /// receiver side still exists (inside the op future, the SubscribeRsp or the stream)
    pub receiver_alive: bool,
    pub buffered: VecDeque<String>,
    pub stream: Option<usize>,
    pub sender_alive: bool,
}

#[derive(Clone, Debug)]
pub struct MStream {
    pub sub: usize,
    pub alive: bool,
    pub held: bool,
    pub woken: bool,
    pub ended: bool,
}

#[derive(Clone, Copy, Debug, PartialEq, Eq)]
pub enum CtxSt {
    Idle,
    Connecting,
    Running,
    Returned,
    Gone,
}

#[derive(Clone, Debug)]
pub enum Msg {
    First(usize),
    Pubrel(usize),
}

#[derive(Clone, Debug)]
pub struct Mismatch {
    pub rule: String,
    pub detail: String,
}

pub struct Model {
    pub ops: Vec<MOp>,
    pub queue: VecDeque<Msg>,
    pub inbox: VecDeque<SPacket>,
    pub eof: bool,
    pub read_err: bool,
    pub write_err: bool,
    pub ctx: CtxSt,
    pub ctx_held: bool,
    pub r: u32,
    pub m: Option<u32>,
    pub quota_used: u32,
    pub subs: Vec<MSub>,
    pub streams: Vec<MStream>,
    pub unreleased: BTreeSet<u16>,
    pub pings: VecDeque<usize>,
    pub expected: Vec<Expect>,
    pub master_alive: bool,
    pub next_sub_guess: u32,
    /// the scenario has learned (from a probe execution) which subscription identifier the next
    /// SUBSCRIBE processed will carry: `next_sub_guess` is exact for it (one-shot)
    pub sub_len_exact: bool,
    /// operations the implementation completed with MaximumPacketSizeExceeded since the last
    /// comparison - consulted only where the specification leaves the outcome open (a SUBSCRIBE
    /// whose length depends on the 1-4 byte identifier the library is free to choose)
    pub observed_size_refusals: BTreeSet<usize>,
    /// real length of the wire packet being compared
    pub cur_wire_len: Option<usize>,
    /// sub ids seen so far (freshness)
    pub seen_sub_ids: BTreeSet<u32>,
    pub hits: Vec<&'static str>,
    /// which observation channels are compared (others are ignored)
    pub check_wire: bool,
    /// see the PUBREC arm of `process_packet`: a QoS 2 publish abandoned before its PUBREC keeps its
    /// slot, whether or not somebody sends the PUBREL (used by C10/abandoned only)
    pub tolerate_abandoned_q2: bool,
    pub check_ops: bool,
    pub check_streams: bool,
    pub check_ctx: bool,
    pub check_client_acks: bool,
    /// the scenario rewinds the identifier counter itself (hook) to make two outstanding operations
    /// share an identifier value: the uniqueness rule of C11 is then not the library's to keep
    pub allow_pid_reuse: bool,
    /// persistent back-pressure (mirror of `Wire::hard_budget`): the next write blocks
    pub block_armed: bool,
    /// the context task is stuck inside the write of this request's packet
    pub blocked: Option<Msg>,
    /// the block has been lifted; the interrupted write completes at the context task's next poll
    pub block_lifted: bool,
    pub connect_spec: Option<ConnectSpec>,
    pub pending_connect: bool,
    pub connecting_cmd: &'static str,
    /// ops that may be steppable (NotPolled / RecOk / Completing); ascending = executor order
    pub wake: BTreeSet<usize>,
    pub by_pid: std::collections::HashMap<u16, Vec<usize>>,
    /// number of live op tasks that still own a handle clone
    /// packet identifiers of the PUBREL packets the implementation wrote since the last comparison
    pub observed_pubrels: Vec<u16>,
    /// live QoS 2 publishes whose successful PUBREC was processed since the last comparison
    pub recok_window: Vec<usize>,
    /// a transient read error is armed and has not been seen by the client yet (`Sys::sync` decides
    /// what it meant once it has been consumed)
    pub transient_pending: bool,
    /// run() returned since the last comparison (observed)
    pub observed_run_return: bool,
    pub live_handles: usize,
    /// the long-lived worker handle (see `start_on_worker`)
    pub worker_exists: bool,
    pub worker_busy: Option<usize>,
    /// order in which QoS>0 PUBLISH (false) and PUBREL (true) packets were first written
    pub sent_log: Vec<(usize, bool)>,
    /// a panic whose message contains this text is a documented assertion, not a violation
    pub exempt_panic: Option<&'static str>,
    /// mirror of the harness gate (DESIGN 3.3): inbound bytes are withheld from a running context
    /// while a request may be queued
    pub gate_closed: bool,
    /// mirror of the context task's wake flag while it is inside run()
    pub ctx_woken: bool,
}

fn pat_matches(p: &ResPat, got: &str) -> bool {
    match p {
        ResPat::Exact(s) => s == got,
        ResPat::AnyErr => got.starts_with("Err:"),
    }
}

impl Model {
    pub fn new() -> Model {
        Model {
            ops: vec![],
            queue: VecDeque::new(),
            inbox: VecDeque::new(),
            eof: false,
            read_err: false,
            write_err: false,
            ctx: CtxSt::Idle,
            ctx_held: false,
            r: 65535,
            m: None,
            quota_used: 0,
            subs: vec![],
            streams: vec![],
            unreleased: BTreeSet::new(),
            pings: VecDeque::new(),
            expected: vec![],
            master_alive: true,
            next_sub_guess: 1,
            sub_len_exact: false,
            observed_size_refusals: BTreeSet::new(),
            cur_wire_len: None,
            seen_sub_ids: BTreeSet::new(),
            hits: vec![],
            check_wire: true,
            tolerate_abandoned_q2: false,
            check_ops: true,
            check_streams: true,
            check_ctx: true,
            check_client_acks: true,
            allow_pid_reuse: false,
            block_armed: false,
            blocked: None,
            block_lifted: false,
            connect_spec: None,
            pending_connect: false,
            connecting_cmd: "connect",
            wake: BTreeSet::new(),
            by_pid: std::collections::HashMap::new(),
            observed_pubrels: vec![],
            recok_window: vec![],
            transient_pending: false,
            observed_run_return: false,
            live_handles: 0,
            worker_exists: false,
            worker_busy: None,
            sent_log: vec![],
            exempt_panic: None,
            gate_closed: false,
            ctx_woken: false,
        }
    }

    fn hit(&mut self, r: &'static str) {
        if !self.hits.contains(&r) {
            self.hits.push(r);
        }
    }

    // ------------------------------------------------------------------------------------------
    // events (mirrors of what the scenario does to the World)

    pub fn connect(&mut self, spec: ConnectSpec) {
        self.ctx = CtxSt::Connecting;
        self.connecting_cmd = "connect";
        match spec.expected() {
            Some(p) => {
                self.expected.push(Expect::Wire(WirePat::Exact(p)));
                self.pending_connect = true;
            }
            None => {
                self.expected.push(Expect::Ctx {
                    cmd: "connect",
                    res: ResPat::AnyErr, // "refused with an error": which one is not prescribed
                });
                self.ctx = CtxSt::Idle;
            }
        }
        self.connect_spec = Some(spec);
    }

    pub fn authorize(&mut self, spec: &AuthSpec) {
        self.ctx = CtxSt::Connecting;
        self.connecting_cmd = "authorize";
        match spec.expected() {
            Some(p) => self.expected.push(Expect::Wire(WirePat::Exact(p))),
            None => {
                self.expected.push(Expect::Ctx {
                    cmd: "authorize",
                    res: ResPat::AnyErr, // "refused with an error": which one is not prescribed
                });
                self.ctx = CtxSt::Idle;
            }
        }
    }

    fn input_pending(&self) -> bool {
        !self.inbox.is_empty() || self.eof || self.read_err
    }

    /// inbound bytes / end-of-stream became available: the reader's waker fires unless the gate holds
    pub fn input_arrived(&mut self) {
        if self.ctx != CtxSt::Running || !self.gate_closed {
            self.ctx_woken = true;
        }
    }

    pub fn run(&mut self) {
        self.ctx = CtxSt::Running;
        self.ctx_woken = true;
    }

    pub fn start(&mut self, spec: OpSpec) -> usize {
        self.ops.push(MOp {
            spec,
            st: St::NotPolled,
            alive: true,
            held: false,
            pid: None,
            sub: None,
            inflight: false,
            lenient: false,
            keeps_handle: false,
        });
        self.wake.insert(self.ops.len() - 1);
        self.live_handles += 1;
        self.ops.len() - 1
    }

    /// mode 1: on the long-lived worker handle itself (given back when the operation completes);
    /// mode 2: on a clone of the worker handle taken now. The worker is a clone of the master handle
    /// made when it is first needed.
    pub fn start_on_worker(&mut self, spec: OpSpec, mode: u8) -> usize {
        if !self.worker_exists {
            self.worker_exists = true;
            self.live_handles += 1;
        }
        let op = self.start(spec);
        if mode == 1 {
            self.live_handles -= 1; // no handle of its own
            self.ops[op].keeps_handle = true;
            self.worker_busy = Some(op);
        }
        op
    }

    /// the handle an operation ran on goes away with the completed operation - unless it is the worker
    fn release_op_handle(&mut self, op: usize) {
        if self.ops[op].keeps_handle {
            if self.worker_busy == Some(op) {
                self.worker_busy = None;
            }
        } else {
            self.live_handles -= 1;
        }
    }

    pub fn cancel(&mut self, op: usize) {
        if self.ops[op].alive && self.ops[op].st != St::Done {
            // (the worker handle lives inside the future of the operation it is running)
            self.live_handles -= 1;
            if self.ops[op].keeps_handle {
                self.worker_exists = false;
                self.worker_busy = None;
            }
        }
        self.ops[op].alive = false;
        self.gate_closed = true;
        if !self.handles_alive() {
            self.ctx_woken = true; // the request channel closes
        }
        self.wake.remove(&op);
        if let Some(s) = self.ops[op].sub {
            // the receiver lives inside the subscribe future until it completes
            if self.subs[s].stream.is_none() && self.ops[op].st != St::Done {
                self.subs[s].receiver_alive = false;
            }
        }
    }

    pub fn deliver(&mut self, p: SPacket) {
        self.inbox.push_back(p);
        self.input_arrived();
    }

    pub fn take_stream(&mut self, op: usize) -> usize {
        let s = self.ops[op].sub.expect("harness: take_stream on non-subscribe");
        let sid = self.streams.len();
        self.subs[s].stream = Some(sid);
        self.streams.push(MStream {
            sub: s,
            alive: true,
            held: false,
            woken: true,
            ended: false,
        });
        sid
    }
    pub fn drop_rsp(&mut self, op: usize) {
        let s = self.ops[op].sub.unwrap();
        self.subs[s].receiver_alive = false;
        self.subs[s].buffered.clear();
    }
    pub fn drop_stream(&mut self, sid: usize) {
        self.streams[sid].alive = false;
        let s = self.streams[sid].sub;
        self.subs[s].receiver_alive = false;
        self.subs[s].buffered.clear();
    }

    pub fn drop_ctx(&mut self) {
        self.ctx = CtxSt::Gone;
        self.blocked = None;
        self.block_lifted = false;
        self.queue.clear();
        for i in 0..self.ops.len() {
            let o = &mut self.ops[i];
            match o.st {
                St::Queued | St::AwaitAck | St::AwaitRec | St::RelQueued | St::AwaitComp => {
                    o.st = St::Completing(ResPat::Exact("Err:ContextExited".into()));
                    if o.alive {
                        self.wake.insert(i);
                    }
                }
                _ => {}
            }
        }
        for s in self.subs.iter_mut() {
            s.sender_alive = false;
        }
        for st in self.streams.iter_mut() {
            st.woken = true;
        }
    }

    pub fn drop_master(&mut self) {
        self.master_alive = false;
        self.gate_closed = true;
        if !self.handles_alive() {
            self.ctx_woken = true;
        }
    }

    fn handles_alive(&self) -> bool {
        // every live, not yet finished op task owns a clone
        self.master_alive || self.live_handles > 0
    }

    // ------------------------------------------------------------------------------------------
    // settle mirror

    fn ctx_runnable(&self) -> bool {
        if self.ctx_held || (self.blocked.is_some() && !self.block_lifted) {
            return false;
        }
        match self.ctx {
            CtxSt::Connecting => !self.inbox.is_empty() || self.eof || self.read_err,
            CtxSt::Running => self.ctx_woken,
            _ => false,
        }
    }

    pub fn settle(&mut self) {
        let mut guard = 0;
        loop {
            guard += 1;
            assert!(guard < 100_000, "MACHINERY: model settle does not terminate");
            if self.ctx_runnable() {
                self.ctx_step();
                continue;
            }
            let next = self.wake.iter().copied().find(|&i| {
                let o = &self.ops[i];
                o.alive
                    && !o.held
                    && matches!(o.st, St::NotPolled | St::RecOk | St::Completing(_))
            });
            if let Some(i) = next {
                self.op_step(i);
                if !matches!(
                    self.ops[i].st,
                    St::NotPolled | St::RecOk | St::Completing(_)
                ) {
                    self.wake.remove(&i);
                }
                continue;
            }
            if let Some(i) = (0..self.streams.len()).find(|&i| {
                let s = &self.streams[i];
                s.alive && !s.held && s.woken && !s.ended
            }) {
                self.stream_step(i);
                continue;
            }
            // quiescent: a context parked in its select loop has an empty queue, the gate opens
            if self.gate_closed && self.ctx == CtxSt::Running && !self.ctx_held && self.blocked.is_none() {
                self.gate_closed = false;
                if self.input_pending() {
                    self.ctx_woken = true;
                }
                continue;
            }
            break;
        }
    }

    fn ctx_return(&mut self, cmd: &'static str, res: ResPat) {
        self.expected.push(Expect::Ctx { cmd, res });
        self.ctx = if cmd == "run" {
            CtxSt::Returned
        } else {
            CtxSt::Idle
        };
    }

    fn ctx_step(&mut self) {
        if self.ctx == CtxSt::Connecting {
            if let Some(p) = self.inbox.pop_front() {
                match p {
                    SPacket::Connack {
                        session_present,
                        reason,
                        props,
                    } => {
                        let d = exp_connack_dig(session_present, reason, &props);
                        self.apply_connack(&props);
                        self.ctx_return(self.connecting_cmd, ResPat::Exact(d));
                        self.hit("connect-result");
                    }
                    SPacket::Auth { reason, props, .. } => {
                        let d = exp_auth_dig(reason, &props);
                        self.ctx_return(self.connecting_cmd, ResPat::Exact(d));
                        self.hit("connect-auth");
                    }
                    _ => self.ctx_return(self.connecting_cmd, ResPat::AnyErr),
                }
            } else {
                self.ctx_return(self.connecting_cmd, ResPat::Exact("Err:SocketClosed".into()));
                self.hit("connect-socket-closed");
            }
            return;
        }
        // Running: one poll of the select loop
        self.ctx_woken = false;
        if self.block_lifted {
            self.block_lifted = false;
            if let Some(m) = self.blocked.take() {
                self.process_msg(m, true);
                if self.ctx != CtxSt::Running {
                    return;
                }
            }
        }
        if !self.queue.is_empty() {
            while let Some(m) = self.queue.pop_front() {
                self.process_msg(m, false);
                if self.ctx != CtxSt::Running || self.blocked.is_some() {
                    return;
                }
            }
        }
        // The closed request channel is seen by the same select branch as queued requests, which
        // the harness lets win over inbound bytes (gating rule).
        if !self.handles_alive() {
            self.ctx_return("run", ResPat::Exact("Err:HandleClosed".into()));
            self.hit("run-handle-closed");
            return;
        }
        if self.gate_closed {
            // the reader was gated: the poll ends Pending with the queue drained, the gate opens and
            // (if anything is waiting) the reader's waker fires
            self.gate_closed = false;
            if self.input_pending() {
                self.ctx_woken = true;
            }
            return;
        }
        // the reader is polled until it has nothing more: every packet, then the end of the stream
        while let Some(p) = self.inbox.pop_front() {
            self.process_packet(p);
            if self.ctx != CtxSt::Running {
                return;
            }
        }
        if self.eof || self.read_err {
            self.ctx_return("run", ResPat::Exact("Err:SocketClosed".into()));
            self.hit("run-socket-closed");
        }
    }

    pub fn apply_connack(&mut self, props: &[Prop]) {
        self.r = 65535;
        // the limits in force are those of the connection this CONNACK opens: no Maximum Packet Size
        // announced means no limit, whatever an earlier connection of the same Context was told
        self.m = None;
        for p in props {
            match (p.id, &p.val) {
                (P_RECEIVE_MAXIMUM, PVal::U16(v)) => self.r = *v as u32,
                (P_MAXIMUM_PACKET_SIZE, PVal::U32(v)) => self.m = Some(*v),
                _ => {}
            }
        }
    }

    /// The transport was replaced (reconnect): nothing of the old connection is pending any more.
    pub fn new_wire(&mut self) {
        self.inbox.clear();
        self.eof = false;
        self.read_err = false;
        self.write_err = false;
    }

    /// run() is called again on a Context that recorded a disconnection (C17).
    pub fn resume(&mut self, expired: bool) {
        self.ctx = CtxSt::Running;
        if expired {
            for i in 0..self.ops.len() {
                if matches!(
                    self.ops[i].st,
                    St::Queued | St::AwaitAck | St::AwaitRec | St::RelQueued | St::AwaitComp
                ) {
                    self.ops[i].inflight = false;
                    self.complete(i, ResPat::AnyErr);
                }
            }
            self.queue.clear();
            self.quota_used = 0;
            self.unreleased.clear();
            self.pings.clear();
            for s in self.subs.iter_mut() {
                s.sender_alive = false;
            }
            self.hit("resume-expired");
            return;
        }
        // Requests other than publishes that were awaiting their acknowledgement are not re-sent;
        // whether their futures stay pending or fail is not prescribed.
        for o in self.ops.iter_mut() {
            if !matches!(o.spec, OpSpec::Publish(_)) && matches!(o.st, St::Queued | St::AwaitAck) {
                o.lenient = true;
            }
        }
        self.pings.clear();
        let log = self.sent_log.clone();
        for (op, pubrel) in log {
            let st = self.ops[op].st.clone();
            if !pubrel && matches!(st, St::AwaitAck | St::AwaitRec) {
                self.expected.push(Expect::Wire(WirePat::Resend { op }));
                self.hit("resume-resend-publish");
            }
            if pubrel && st == St::AwaitComp {
                let pid = self.ops[op].pid.unwrap();
                self.expected.push(Expect::Wire(WirePat::PubrelResent { pid }));
                self.hit("resume-resend-pubrel");
            }
        }
    }

    /// Encoded length of the packet a request produces, computed with the reference encoder.
    pub fn request_len(&self, op: usize, pubrel: bool) -> usize {
        if pubrel {
            return 4;
        }
        let p = match &self.ops[op].spec {
            OpSpec::Publish(s) => s.expected(1),
            OpSpec::Subscribe(s) => s.expected(1, self.next_sub_guess),
            OpSpec::Unsubscribe(s) => s.expected(1),
            OpSpec::Ping => Some(CPacket::Pingreq),
            OpSpec::Disconnect(s) => s.expected(),
        };
        encode_client(&p.expect("harness: invalid request reached the queue")).len()
    }

    fn subscribe_len(&self, op: usize, sub_id: u32) -> usize {
        match &self.ops[op].spec {
            OpSpec::Subscribe(s) => encode_client(&s.expected(1, sub_id).expect("harness: invalid subscribe")).len(),
            _ => unreachable!(),
        }
    }

    /// the implementation completed `op` with MaximumPacketSizeExceeded in this step, a limit is in
    /// force and the request's packet may exceed it (upper end of its length window)
    fn early_size_refusal(&self, op: usize) -> bool {
        if !self.observed_size_refusals.contains(&op) {
            return false;
        }
        let Some(mx) = self.m else { return false };
        let hi = match &self.ops[op].spec {
            OpSpec::Subscribe(_) => self.subscribe_len(op, 268_435_455),
            _ => self.request_len(op, false),
        };
        hi as u64 > mx as u64
    }

    /// a live QoS 2 publish whose PUBREC (< 0x80) has been processed while its PUBREL is still to come
    /// according to the future-driven sequence (the future not polled yet, or its request still queued)
    fn early_pubrel_op(&self, pid: u16) -> Option<usize> {
        (0..self.ops.len()).find(|&i| {
            let o = &self.ops[i];
            o.pid == Some(pid)
                && matches!(&o.spec, OpSpec::Publish(p) if p.qos() == 2)
                && ((o.alive && matches!(o.st, St::RecOk | St::RelQueued) && self.ctx == CtxSt::Running)
                    // ... or the context has ended in the meantime (a server DISCONNECT behind the
                    // PUBREC in the same batch, say) and the future has already been told so
                    || (self.recok_window.contains(&i) && !matches!(o.st, St::AwaitComp)))
        })
    }

    fn complete(&mut self, op: usize, res: ResPat) {
        self.ops[op].st = St::Completing(res);
        if self.ops[op].alive {
            self.wake.insert(op);
        }
    }

    fn write_fails(&mut self) -> bool {
        if self.write_err {
            self.ctx_return("run", ResPat::Exact("Err:SocketClosed".into()));
            self.hit("run-write-error");
            true
        } else {
            false
        }
    }

    /// the write of the current request's packet: fails (write error), blocks (persistent
    /// back-pressure armed: everything after the write is deferred until `unblock`), or goes through
    fn write_gate(&mut self, m: &Msg, resumed: bool) -> bool {
        if self.write_fails() {
            // the request whose packet could not be written is lost with it: its caller is told that
            // the context is gone for it, even if the Context value lives on for another connection
            let op = match m {
                Msg::First(op) | Msg::Pubrel(op) => *op,
            };
            if !matches!(self.ops[op].st, St::Done | St::Completing(_)) {
                self.complete(op, ResPat::Exact("Err:ContextExited".into()));
            }
            return true;
        }
        if !resumed && self.block_armed {
            self.block_armed = false;
            self.blocked = Some(m.clone());
            self.hit("write-blocked");
            return true;
        }
        false
    }

    /// the back-pressure is lifted: the interrupted write completes and the context carries on
    pub fn unblock(&mut self) {
        self.block_armed = false;
        if self.blocked.is_some() {
            // the writer's waker fires; the write completes when the context task is polled next
            self.block_lifted = true;
            self.ctx_woken = true;
        }
    }

    fn process_msg(&mut self, m: Msg, resumed: bool) {
        let (op, pubrel) = match m {
            Msg::First(op) => (op, false),
            Msg::Pubrel(op) => (op, true),
        };
        let len = self.request_len(op, pubrel);
        if let (Some(mx), false) = (self.m, resumed) {
            let mut refused = len as u64 > mx as u64;
            // Packets whose length the standard does not fix, because the library has a choice:
            //  * SUBSCRIBE carries a subscription identifier of the library's choosing, 1-4 bytes;
            //  * PUBREL may be written short (4 bytes) or with reason code and property length (5, 6);
            //  * a DISCONNECT without properties may be written as E0 00 (reason 0), E0 01 rr, or in
            //    full (4 bytes).
            // Outside the window the outcome is prescribed; inside it both outcomes are legitimate and
            // the implementation's answer is followed (whatever is written is still measured against M
            // when it appears on the wire).
            let window: Option<(u64, u64)> = if pubrel {
                Some((4, 6))
            } else {
                match &self.ops[op].spec {
                    OpSpec::Subscribe(_) => {
                        if self.sub_len_exact {
                            self.sub_len_exact = false;
                            None
                        } else {
                            Some((
                                self.subscribe_len(op, 1) as u64,
                                self.subscribe_len(op, 268_435_455) as u64,
                            ))
                        }
                    }
                    OpSpec::Disconnect(d)
                        if d.session_expiry.is_none() && d.reason_string.is_none() && d.user_props.is_empty() =>
                    {
                        let lo = if d.reason.unwrap_or(0) == 0 { 2 } else { 3 };
                        Some((lo, len as u64))
                    }
                    _ => None,
                }
            };
            if let Some((lo, hi)) = window {
                refused = if lo > mx as u64 {
                    true
                } else if hi <= mx as u64 {
                    false
                } else {
                    self.hit("request-length-open");
                    self.observed_size_refusals.contains(&op)
                };
            }
            if refused {
                self.complete(
                    op,
                    ResPat::Exact("Err:MaximumPacketSizeExceeded".into()),
                );
                self.hit("max-packet-size-refusal");
                return;
            }
        }
        if pubrel {
            if self.ops[op].st == St::AwaitComp {
                // (the context had already sent the PUBREL on its own, see `compare`)
                return;
            }
            if self.write_gate(&m, resumed) {
                return;
            }
            let pid = self.ops[op].pid.expect("harness: pubrel without pid");
            self.expected.push(Expect::Wire(WirePat::Pubrel { pid }));
            self.ops[op].st = St::AwaitComp;
            self.sent_log.push((op, true));
            self.hit("pubrel-sent");
            return;
        }
        let spec = self.ops[op].spec.clone();
        match spec {
            OpSpec::Publish(p) => {
                if p.qos() == 0 {
                    if self.write_gate(&m, resumed) {
                        return;
                    }
                    self.expected.push(Expect::Wire(WirePat::Request { op }));
                    self.complete(op, ResPat::Exact("Ok".into()));
                    self.hit("qos0-written");
                } else {
                    if !resumed && self.quota_used >= self.r {
                        self.complete(op, ResPat::Exact("Err:QuotaExceeded".into()));
                        self.hit("quota-refusal");
                        return;
                    }
                    if self.write_gate(&m, resumed) {
                        return;
                    }
                    self.quota_used += 1;
                    self.ops[op].inflight = true;
                    self.sent_log.push((op, false));
                    self.expected.push(Expect::Wire(WirePat::Request { op }));
                    self.ops[op].st = if p.qos() == 1 {
                        St::AwaitAck
                    } else {
                        St::AwaitRec
                    };
                    self.hit("qos12-written");
                }
            }
            OpSpec::Subscribe(_) => {
                if self.write_gate(&m, resumed) {
                    return;
                }
                self.expected.push(Expect::Wire(WirePat::Request { op }));
                self.ops[op].st = St::AwaitAck;
                let s = self.ops[op].sub.unwrap();
                self.subs[s].sender_alive = true;
                // (only ever a guess inside the length window; kept inside the legal range)
                self.next_sub_guess = if self.next_sub_guess >= 268_435_455 { 1 } else { self.next_sub_guess + 1 };
                self.hit("subscribe-written");
            }
            OpSpec::Unsubscribe(_) => {
                if self.write_gate(&m, resumed) {
                    return;
                }
                self.expected.push(Expect::Wire(WirePat::Request { op }));
                self.ops[op].st = St::AwaitAck;
            }
            OpSpec::Ping => {
                if self.write_gate(&m, resumed) {
                    return;
                }
                self.expected.push(Expect::Wire(WirePat::Request { op }));
                self.ops[op].st = St::AwaitAck;
                self.pings.push_back(op);
            }
            OpSpec::Disconnect(_) => {
                if self.write_gate(&m, resumed) {
                    return;
                }
                self.expected.push(Expect::Wire(WirePat::Request { op }));
                self.complete(op, ResPat::Exact("Ok".into()));
                // C13: run() returns Ok(()) once the user's DISCONNECT has been written
                self.ctx_return("run", ResPat::Exact("Ok".into()));
                self.hit("user-disconnect");
            }
        }
    }

    fn find_op(&self, pid: u16, st: &St, want_qos: Option<u8>, kind: u8) -> Option<usize> {
        let cands = self.by_pid.get(&pid)?;
        cands.iter().copied().find(|&i| {
            let o = &self.ops[i];
            o.pid == Some(pid)
                && &o.st == st
                && match (&o.spec, kind) {
                    (OpSpec::Publish(p), 3) => Some(p.qos()) == want_qos,
                    (OpSpec::Subscribe(_), 8) => true,
                    (OpSpec::Unsubscribe(_), 10) => true,
                    _ => false,
                }
        })
    }

    fn free_slot(&mut self, op: usize) {
        if self.ops[op].inflight {
            self.ops[op].inflight = false;
            assert!(self.quota_used > 0, "harness: quota underflow in model");
            self.quota_used -= 1;
        }
    }

    fn process_packet(&mut self, p: SPacket) {
        match p {
            SPacket::Ack {
                ty,
                pid,
                reason,
                props,
                form,
            } => {
                let (reason, props) = match form {
                    2 => (0, vec![]),
                    3 => (reason, vec![]),
                    _ => (reason, props),
                };
                match ty {
                    4 => {
                        if let Some(op) = self.find_op(pid, &St::AwaitAck, Some(1), 3) {
                            self.free_slot(op);
                            let res = if reason >= 0x80 {
                                exp_ack_err("PubackError", reason, &props)
                            } else {
                                "Ok".into()
                            };
                            self.complete(op, ResPat::Exact(res));
                            self.hit("puback");
                        }
                    }
                    5 => {
                        if let Some(op) = self.find_op(pid, &St::AwaitRec, Some(2), 3) {
                            if reason >= 0x80 {
                                self.free_slot(op);
                                let res = exp_ack_err("PubrecError", reason, &props);
                                self.complete(op, ResPat::Exact(res));
                                self.hit("pubrec-fail");
                            } else if self.ops[op].alive
                                && self.ops[op].held
                                && self.observed_pubrels.contains(&pid)
                                && !self.write_err
                                && !self.block_armed
                            {
                                // The caller's future has not been polled since, and the PUBREL is on
                                // the wire all the same: this implementation lets the context finish
                                // the exchange. C06 only says "exactly one PUBREL, after the PUBREC";
                                // who sends it is not prescribed - followed.
                                self.expected.push(Expect::Wire(WirePat::Pubrel { pid }));
                                self.ops[op].st = St::AwaitComp;
                                self.sent_log.push((op, true));
                                self.hit("pubrel-sent");
                            } else if self.ops[op].alive {
                                self.ops[op].st = St::RecOk;
                                self.recok_window.push(op);
                                self.wake.insert(op);
                                self.hit("pubrec-ok");
                            } else if self.tolerate_abandoned_q2 {
                                // (C10/abandoned) Recorded finding K-C15-1: nobody sends the PUBREL.
                                // Whether or not an implementation completes the handshake on its
                                // own, the exchange is still open at this point and keeps its slot;
                                // the wire is no longer compared (a PUBREL may or may not appear).
                                self.ops[op].st = St::Done;
                                self.ops[op].lenient = true;
                                self.check_wire = false;
                                self.hit("abandoned-q2-open");
                            } else {
                                // The caller abandoned the publish; the handshake still has to be
                                // finished (PUBREL, then PUBCOMP frees the slot) - C15.
                                self.expected.push(Expect::Wire(WirePat::Pubrel { pid }));
                                self.ops[op].st = St::AwaitComp;
                                self.hit("pubrec-ok-abandoned");
                            }
                        }
                    }
                    6 => {
                        if self.write_fails() {
                            return;
                        }
                        self.unreleased.remove(&pid);
                        self.expected
                            .push(Expect::Wire(WirePat::Ack { ty: 7, pid }));
                        self.hit("pubrel-in");
                    }
                    _ => {
                        if let Some(op) = self.find_op(pid, &St::AwaitComp, Some(2), 3) {
                            self.free_slot(op);
                            let res = if reason >= 0x80 {
                                exp_ack_err("PubcompError", reason, &props)
                            } else {
                                "Ok".into()
                            };
                            self.complete(op, ResPat::Exact(res));
                            self.hit("pubcomp");
                        }
                    }
                }
            }
            SPacket::Suback {
                pid,
                props,
                reasons,
            } => {
                if let Some(op) = self.find_op(pid, &St::AwaitAck, None, 8) {
                    self.complete(op, ResPat::Exact(exp_suback_dig(&props, &reasons)));
                    self.hit("suback");
                }
            }
            SPacket::Unsuback {
                pid,
                props,
                reasons,
            } => {
                if let Some(op) = self.find_op(pid, &St::AwaitAck, None, 10) {
                    self.complete(op, ResPat::Exact(exp_unsuback_dig(&props, &reasons)));
                    self.hit("unsuback");
                }
            }
            SPacket::Pingresp => {
                if let Some(op) = self.pings.pop_front() {
                    self.complete(op, ResPat::Exact("Ok".into()));
                    self.hit("pingresp");
                }
            }
            SPacket::Publish {
                dup,
                qos,
                retain,
                topic,
                pid,
                props,
                payload,
            } => {
                let mut deliver = true;
                if qos == 2 {
                    let pid = pid.unwrap();
                    if self.unreleased.contains(&pid) {
                        deliver = false;
                        self.hit("qos2-redelivery-suppressed");
                    } else {
                        self.unreleased.insert(pid);
                    }
                }
                if deliver {
                    let dig = exp_publish_data_dig(dup, qos, retain, &topic, &props, &payload);
                    let mut ids: Vec<u32> = vec![];
                    for p in &props {
                        if let (P_SUBSCRIPTION_ID, PVal::Var(v)) = (p.id, &p.val) {
                            if !ids.contains(v) {
                                ids.push(*v);
                            }
                        }
                    }
                    for id in ids {
                        for s in 0..self.subs.len() {
                            if self.subs[s].sub_id == Some(id)
                                && self.subs[s].sender_alive
                                && self.subs[s].receiver_alive
                            {
                                self.subs[s].buffered.push_back(dig.clone());
                                if let Some(st) = self.subs[s].stream {
                                    self.streams[st].woken = true;
                                }
                                self.hit("message-dispatched");
                            }
                        }
                    }
                }
                if qos > 0 {
                    if self.write_fails() {
                        return;
                    }
                    self.expected.push(Expect::Wire(WirePat::Ack {
                        ty: if qos == 1 { 4 } else { 5 },
                        pid: pid.unwrap(),
                    }));
                    self.hit("inbound-ack");
                }
            }
            SPacket::Disconnect {
                reason,
                props,
                form,
            } => {
                let (reason, props) = match form {
                    0 => (0, vec![]),
                    1 => (reason, vec![]),
                    _ => (reason, props),
                };
                if reason == 0 {
                    self.ctx_return("run", ResPat::Exact("Ok".into()));
                } else {
                    self.ctx_return("run", ResPat::Exact(exp_disconnected(reason, &props)));
                }
                self.hit("server-disconnect");
            }
            SPacket::Raw(_) => {
                self.ctx_return("run", ResPat::AnyErr);
                self.hit("undecodable");
            }
            SPacket::Connack { .. } | SPacket::Auth { .. } => {
                // not a conformant packet while running; properties only ask for no panic / no wedge
            }
        }
    }

    /// an operation task was polled without a wakeup: nothing changes, but the harness gate closes
    pub fn spurious_op(&mut self) {
        self.gate_closed = true;
    }

    fn op_step(&mut self, op: usize) {
        self.gate_closed = true;
        let st = self.ops[op].st.clone();
        match st {
            St::NotPolled => {
                let valid = match &self.ops[op].spec {
                    OpSpec::Publish(s) => s.expected(1).is_some(),
                    OpSpec::Subscribe(s) => s.expected(1, 1).is_some(),
                    OpSpec::Unsubscribe(s) => s.expected(1).is_some(),
                    _ => true,
                };
                if let OpSpec::Subscribe(_) = &self.ops[op].spec {
                    if valid {
                        self.subs.push(MSub {
                            op,
                            sub_id: None,
                            receiver_alive: true,
                            buffered: VecDeque::new(),
                            stream: None,
                            sender_alive: false,
                        });
                        self.ops[op].sub = Some(self.subs.len() - 1);
                    }
                }
                if !valid {
                    self.expected.push(Expect::Done {
                        op,
                        res: ResPat::AnyErr, // "refused with an error": which one is not prescribed
                    });
                    self.ops[op].st = St::Done;
                    self.release_op_handle(op);
                    self.hit("invalid-request-refused");
                } else if self.ctx == CtxSt::Gone {
                    self.expected.push(Expect::Done {
                        op,
                        res: ResPat::Exact("Err:ContextExited".into()),
                    });
                    self.ops[op].st = St::Done;
                    self.release_op_handle(op);
                    if let Some(sb) = self.ops[op].sub {
                        self.subs[sb].receiver_alive = false;
                    }
                    self.hit("op-after-context-gone");
                } else if self.early_size_refusal(op) {
                    // The implementation refused the request for its size at this very poll and the
                    // request may indeed exceed the limit: whether the handle or the context task
                    // measures it is the implementation's business (C12 only says the operation
                    // fails and nothing is written). Treated as refused on the spot.
                    self.expected.push(Expect::Done {
                        op,
                        res: ResPat::Exact("Err:MaximumPacketSizeExceeded".into()),
                    });
                    self.ops[op].st = St::Done;
                    self.release_op_handle(op);
                    if let Some(sb) = self.ops[op].sub {
                        self.subs[sb].receiver_alive = false;
                    }
                    self.hit("max-packet-size-refusal");
                    if !self.handles_alive() {
                        self.ctx_woken = true;
                    }
                } else {
                    self.queue.push_back(Msg::First(op));
                    self.ctx_woken = true;
                    self.ops[op].st = St::Queued;
                }
            }
            St::RecOk => {
                if self.ctx == CtxSt::Gone {
                    self.expected.push(Expect::Done {
                        op,
                        res: ResPat::Exact("Err:ContextExited".into()),
                    });
                    self.ops[op].st = St::Done;
                    self.release_op_handle(op);
                } else {
                    self.queue.push_back(Msg::Pubrel(op));
                    self.ctx_woken = true;
                    self.ops[op].st = St::RelQueued;
                }
            }
            St::Completing(res) => {
                if res == ResPat::Exact("Err:ContextExited".into()) {
                    self.hit("context-exited-delivered");
                }
                if let (Some(sb), ResPat::Exact(r)) = (self.ops[op].sub, &res) {
                    if r.starts_with("Err:") {
                        self.subs[sb].receiver_alive = false;
                        self.subs[sb].buffered.clear();
                    }
                }
                self.expected.push(Expect::Done { op, res });
                self.ops[op].st = St::Done;
                self.release_op_handle(op);
                if !self.handles_alive() {
                    self.ctx_woken = true;
                }
            }
            _ => {}
        }
    }

    fn stream_step(&mut self, sid: usize) {
        let s = self.streams[sid].sub;
        while let Some(d) = self.subs[s].buffered.pop_front() {
            self.expected.push(Expect::Item { stream: sid, dig: d });
            self.hit("stream-item");
        }
        if !self.subs[s].sender_alive && self.ctx == CtxSt::Gone {
            self.expected.push(Expect::StreamEnd { stream: sid });
            self.streams[sid].ended = true;
            self.hit("stream-end");
        }
        self.streams[sid].woken = false;
    }

    // ------------------------------------------------------------------------------------------
    // comparison

    fn pid_in_use(&self, pid: u16, except: usize) -> bool {
        if self.allow_pid_reuse {
            return false;
        }
        self.by_pid
            .get(&pid)
            .map(|v| {
                v.iter().any(|&i| {
                    let o = &self.ops[i];
                    i != except
                        && matches!(
                            o.st,
                            St::AwaitAck | St::AwaitRec | St::RecOk | St::RelQueued | St::AwaitComp
                        )
                        && !matches!(o.spec, OpSpec::Ping)
                })
            })
            .unwrap_or(false)
    }

    fn match_wire(&mut self, pat: &WirePat, got: &CPacket) -> Result<(), Mismatch> {
        match pat {
            WirePat::Exact(want) => {
                if normalise(want) != normalise(got) {
                    return Err(Mismatch {
                        rule: format!("wire-mismatch:{}", want.kind()),
                        detail: format!("expected {:?}\n got      {:?}", want, got),
                    });
                }
                Ok(())
            }
            WirePat::Pubrel { pid } | WirePat::PubrelResent { pid } => {
                // type and identifier are prescribed; reason / properties of the PUBREL are not
                match got {
                    CPacket::Pubrel(a) if a.pid == *pid => Ok(()),
                    _ => Err(Mismatch {
                        rule: "wire-mismatch:PUBREL".into(),
                        detail: format!("expected PUBREL with packet id {}\n got      {:?}", pid, got),
                    }),
                }
            }
            WirePat::Ack { ty, pid } => {
                let ok = match (ty, got) {
                    (4, CPacket::Puback(a)) | (5, CPacket::Pubrec(a)) | (7, CPacket::Pubcomp(a)) => {
                        a.pid == *pid
                    }
                    _ => false,
                };
                if !ok {
                    return Err(Mismatch {
                        rule: format!(
                            "wire-mismatch:{}",
                            ["", "", "", "", "PUBACK", "PUBREC", "", "PUBCOMP"][*ty as usize]
                        ),
                        detail: format!(
                            "expected acknowledgement type {} for packet id {}, got {}",
                            ty,
                            pid,
                            got.brief()
                        ),
                    });
                }
                Ok(())
            }
            WirePat::Resend { op } => {
                let pid = self.ops[*op].pid.unwrap_or(0);
                let want = match &self.ops[*op].spec {
                    OpSpec::Publish(s) => s.expected(pid).map(|p| match p {
                        CPacket::Publish(mut x) => {
                            x.dup = true;
                            CPacket::Publish(x)
                        }
                        o => o,
                    }),
                    _ => None,
                }
                .expect("harness: resend of non-publish");
                if normalise(&want) != normalise(got) {
                    return Err(Mismatch {
                        rule: "wire-mismatch:RESEND".into(),
                        detail: format!("expected {:?}\n got      {:?}", want, got),
                    });
                }
                Ok(())
            }
            WirePat::Request { op } => {
                let op = *op;
                let gpid = got.pid();
                let spec = self.ops[op].spec.clone();
                let want = match &spec {
                    OpSpec::Publish(s) => s.expected(gpid.unwrap_or(0)),
                    OpSpec::Subscribe(s) => {
                        let sid = match got {
                            CPacket::Subscribe(g) => g
                                .props
                                .iter()
                                .find(|p| p.id == P_SUBSCRIPTION_ID)
                                .and_then(|p| if let PVal::Var(v) = p.val { Some(v) } else { None }),
                            _ => None,
                        };
                        s.expected(gpid.unwrap_or(0), sid.unwrap_or(0))
                    }
                    OpSpec::Unsubscribe(s) => s.expected(gpid.unwrap_or(0)),
                    OpSpec::Ping => Some(CPacket::Pingreq),
                    OpSpec::Disconnect(s) => s.expected(),
                }
                .expect("harness: request without expected packet");
                if normalise(&want) != normalise(got) {
                    return Err(Mismatch {
                        rule: format!("wire-mismatch:{}", want.kind()),
                        detail: format!(
                            "request {} must produce\n  {:?}\n but the wire shows\n  {:?}",
                            spec.brief(),
                            want,
                            got
                        ),
                    });
                }
                // C12: nothing longer than the announced Maximum Packet Size is ever written
                if let Some(mx) = self.m {
                    let l = self.cur_wire_len.unwrap_or_else(|| encode_client(got).len());
                    if l as u64 > mx as u64 {
                        return Err(Mismatch {
                            rule: format!("wire-oversized:{}", want.kind()),
                            detail: format!(
                                "request {} was written as a packet of {} bytes although the CONNACK announced Maximum Packet Size {}",
                                spec.brief(),
                                l,
                                mx
                            ),
                        });
                    }
                }
                // identifiers assigned by the library: non-zero (decoder), unique among outstanding
                if let Some(pid) = gpid {
                    if self.pid_in_use(pid, op) {
                        return Err(Mismatch {
                            rule: "pid-in-use".into(),
                            detail: format!(
                                "{} got packet identifier {} which another outstanding operation holds",
                                spec.brief(),
                                pid
                            ),
                        });
                    }
                    self.ops[op].pid = Some(pid);
                    let ops = &self.ops;
                    let v = self.by_pid.entry(pid).or_default();
                    v.retain(|&i| {
                        matches!(
                            ops[i].st,
                            St::AwaitAck | St::AwaitRec | St::RecOk | St::RelQueued | St::AwaitComp
                        )
                    });
                    v.push(op);
                }
                if let CPacket::Subscribe(g) = got {
                    let sid = g
                        .props
                        .iter()
                        .find(|p| p.id == P_SUBSCRIPTION_ID)
                        .and_then(|p| if let PVal::Var(v) = p.val { Some(v) } else { None })
                        .unwrap_or(0);
                    if !self.seen_sub_ids.insert(sid) {
                        return Err(Mismatch {
                            rule: "subid-reuse".into(),
                            detail: format!("subscription identifier {} assigned twice", sid),
                        });
                    }
                    let s = self.ops[op].sub.unwrap();
                    self.subs[s].sub_id = Some(sid);
                }
                Ok(())
            }
        }
    }

    fn op_kind(&self, op: usize) -> String {
        match &self.ops[op].spec {
            OpSpec::Publish(p) => format!("publish-q{}", p.qos()),
            OpSpec::Subscribe(_) => "subscribe".into(),
            OpSpec::Unsubscribe(_) => "unsubscribe".into(),
            OpSpec::Ping => "ping".into(),
            OpSpec::Disconnect(_) => "disconnect".into(),
        }
    }

    /// Compare the observations made since the last comparison with what the model expects.
    /// Returns the first mismatch per channel (empty = agreement).
    pub fn compare(&mut self, obs: &[Ob]) -> Vec<Mismatch> {
        let mut out = vec![];
        let expected = std::mem::take(&mut self.expected);
        let mut wires: VecDeque<WirePat> = VecDeque::new();
        let mut dones: Vec<(usize, ResPat)> = vec![];
        let mut items: Vec<VecDeque<Option<String>>> = vec![VecDeque::new(); self.streams.len()];
        let mut ctxs: VecDeque<(&'static str, ResPat)> = VecDeque::new();
        for e in expected {
            match e {
                Expect::Wire(p) => wires.push_back(p),
                Expect::Done { op, res } => dones.push((op, res)),
                Expect::Item { stream, dig } => items[stream].push_back(Some(dig)),
                Expect::StreamEnd { stream } => items[stream].push_back(None),
                Expect::Ctx { cmd, res } => ctxs.push_back((cmd, res)),
            }
        }
        // PUBREL packets form a channel of their own: C06 prescribes "exactly one PUBREL, after the
        // PUBREC (< 0x80)", not where it stands relative to other packets or to other PUBRELs - an
        // implementation may let the context answer the PUBREC at once, or (like today's) leave it to
        // the publish() future when it is polled next.
        let mut want_rels: Vec<u16> = wires
            .iter()
            .filter_map(|w| if let WirePat::Pubrel { pid } = w { Some(*pid) } else { None })
            .collect();
        wires.retain(|w| !matches!(w, WirePat::Pubrel { .. }));
        let mut after_disconnect = false;
        let mut wire_dead = false;
        for o in obs {
            match o {
                // (re-sent PUBRELs of a resumed session are part of the prescribed resend sequence)
                Ob::Wire(p @ CPacket::Pubrel(a)) if !matches!(wires.front(), Some(WirePat::Resend { .. } | WirePat::PubrelResent { .. })) => {
                    if wire_dead {
                        continue;
                    }
                    if after_disconnect {
                        if self.check_wire {
                            out.push(Mismatch {
                                rule: "wire-unexpected:PUBREL".into(),
                                detail: format!("{} written after the user's DISCONNECT", p.brief()),
                            });
                        }
                        wire_dead = true;
                    } else if let Some(i) = want_rels.iter().position(|x| *x == a.pid) {
                        want_rels.remove(i);
                        if let Err(m) = self.match_wire(&WirePat::Pubrel { pid: a.pid }, p) {
                            if self.check_wire {
                                out.push(m);
                            }
                            wire_dead = true;
                        }
                    } else if let Some(op) = self.early_pubrel_op(a.pid) {
                        // sent by the context before the caller's future got to it: followed
                        if let Err(m) = self.match_wire(&WirePat::Pubrel { pid: a.pid }, p) {
                            if self.check_wire {
                                out.push(m);
                            }
                            wire_dead = true;
                        }
                        if matches!(self.ops[op].st, St::RecOk | St::RelQueued) {
                            self.ops[op].st = St::AwaitComp;
                            self.sent_log.push((op, true));
                        }
                        self.recok_window.retain(|x| *x != op);
                        self.hit("pubrel-sent");
                    } else {
                        if self.check_wire {
                            out.push(Mismatch {
                                rule: "wire-unexpected:PUBREL".into(),
                                detail: format!("unexpected packet on the wire: {}", p.brief()),
                            });
                        }
                        wire_dead = true;
                    }
                }
                Ob::Panic { task, msg } => {
                    if self.exempt_panic.map(|e| msg.contains(e)).unwrap_or(false) {
                        continue;
                    }
                    out.push(Mismatch {
                        rule: "panic".into(),
                        detail: format!("panic while polling {}: {}", task, msg),
                    })
                }
                Ob::Broken { rule, detail } => out.push(Mismatch {
                    rule: rule.to_string(),
                    detail: detail.clone(),
                }),
                Ob::WireErr(e) => {
                    if self.check_wire {
                        out.push(Mismatch {
                            rule: "wire-undecodable".into(),
                            detail: format!("the client wrote bytes that are not well-formed MQTT 5: {}", e),
                        });
                    }
                    wire_dead = true;
                }
                Ob::WireLen(n) => self.cur_wire_len = Some(*n),
                Ob::Wire(p) => {
                    if wire_dead {
                        continue;
                    }
                    if matches!(p, CPacket::Disconnect(_)) {
                        after_disconnect = true;
                    }
                    let is_client_ack =
                        matches!(p, CPacket::Puback(_) | CPacket::Pubrec(_) | CPacket::Pubcomp(_));
                    if is_client_ack && !self.check_client_acks {
                        continue;
                    }
                    // skip expectations of client acks if those are not compared
                    while !self.check_client_acks
                        && matches!(wires.front(), Some(WirePat::Ack { .. }))
                    {
                        wires.pop_front();
                    }
                    match wires.pop_front() {
                        None => {
                            if self.check_wire {
                                out.push(Mismatch {
                                    rule: format!("wire-unexpected:{}", p.kind()),
                                    detail: format!("unexpected packet on the wire: {}", p.brief()),
                                });
                            }
                            wire_dead = true;
                        }
                        Some(pat) => {
                            if let Err(m) = self.match_wire(&pat, p) {
                                let is_id_rule = m.rule == "pid-in-use" || m.rule == "subid-reuse";
                                if self.check_wire || is_id_rule {
                                    out.push(m);
                                }
                                wire_dead = true;
                            }
                        }
                    }
                }
                Ob::Done { op, res } => {
                    if let Some(i) = dones.iter().position(|(o, _)| o == op) {
                        let (_, pat) = dones.remove(i);
                        if !pat_matches(&pat, res) && self.check_ops {
                            out.push(Mismatch {
                                rule: format!("op-wrong-result:{}", self.op_kind(*op)),
                                detail: format!(
                                    "operation {} ({}) completed with {}\n expected {:?}",
                                    op,
                                    self.ops[*op].spec.brief(),
                                    res,
                                    pat
                                ),
                            });
                        }
                    } else if self.ops.get(*op).is_some_and(|o| o.lenient) && res.starts_with("Err:") {
                        // unconstrained
                    } else if self.check_ops {
                        out.push(Mismatch {
                            rule: format!("op-unexpected-completion:{}", self.op_kind(*op)),
                            detail: format!(
                                "operation {} ({}) completed with {} although nothing that completes it has happened (model state {:?})",
                                op,
                                self.ops[*op].spec.brief(),
                                res,
                                self.ops[*op].st
                            ),
                        });
                    }
                }
                Ob::Item { stream, dig } => {
                    if !self.check_streams {
                        continue;
                    }
                    match items.get_mut(*stream).and_then(|q| q.pop_front()) {
                        Some(Some(want)) if &want == dig => {}
                        Some(want) => out.push(Mismatch {
                            rule: "stream-wrong-item".into(),
                            detail: format!(
                                "stream {} yielded {}\n expected {:?}",
                                stream, dig, want
                            ),
                        }),
                        None => out.push(Mismatch {
                            rule: "stream-unexpected-item".into(),
                            detail: format!("stream {} yielded {} which it must not receive", stream, dig),
                        }),
                    }
                }
                Ob::StreamEnd { stream } => {
                    if !self.check_streams {
                        continue;
                    }
                    match items.get_mut(*stream).and_then(|q| q.pop_front()) {
                        Some(None) => {}
                        other => out.push(Mismatch {
                            rule: "stream-unexpected-end".into(),
                            detail: format!("stream {} ended; expected {:?}", stream, other),
                        }),
                    }
                }
                Ob::Ctx { cmd, res } => {
                    if !self.check_ctx {
                        ctxs.pop_front();
                        continue;
                    }
                    match ctxs.pop_front() {
                        Some((c, pat)) if c == *cmd => {
                            if !pat_matches(&pat, res) {
                                out.push(Mismatch {
                                    rule: format!("ctx-wrong-result:{}", cmd),
                                    detail: format!("{}() returned {}\n expected {:?}", cmd, res, pat),
                                });
                            }
                        }
                        _ => out.push(Mismatch {
                            rule: format!("ctx-unexpected-return:{}", cmd),
                            detail: format!(
                                "{}() returned {} although no terminating cause has occurred",
                                cmd, res
                            ),
                        }),
                    }
                }
            }
        }
        for pid in want_rels {
            wires.push_back(WirePat::Pubrel { pid });
        }
        self.recok_window.clear();
        // anything still expected is missing (a stall, since the system is quiescent)
        if !wire_dead && self.check_wire {
            while !self.check_client_acks && matches!(wires.front(), Some(WirePat::Ack { .. })) {
                wires.pop_front();
            }
            if let Some(p) = wires.front() {
                let kind = match p {
                    WirePat::Request { op } => self.op_kind(*op),
                    WirePat::Pubrel { .. } | WirePat::PubrelResent { .. } => "PUBREL".into(),
                    WirePat::Ack { ty, .. } => format!("ack{}", ty),
                    WirePat::Exact(p) => p.kind().to_string(),
                    WirePat::Resend { .. } => "RESEND".into(),
                };
                out.push(Mismatch {
                    rule: format!("wire-missing:{}", kind),
                    detail: format!("expected on the wire but never written: {:?}", p),
                });
            }
        }
        if self.check_ops {
            if let Some((op, pat)) = dones.first() {
                out.push(Mismatch {
                    rule: format!("op-missing-completion:{}", self.op_kind(*op)),
                    detail: format!(
                        "operation {} ({}) must have completed with {:?} but is still pending and not woken",
                        op,
                        self.ops[*op].spec.brief(),
                        pat
                    ),
                });
            }
        }
        if self.check_streams {
            for (s, q) in items.iter().enumerate() {
                if let Some(x) = q.front() {
                    out.push(Mismatch {
                        rule: if x.is_some() {
                            "stream-missing-item".into()
                        } else {
                            "stream-missing-end".into()
                        },
                        detail: format!("stream {} must have yielded {:?} but is pending and not woken", s, x),
                    });
                }
            }
        }
        if self.check_ctx {
            if let Some((c, pat)) = ctxs.front() {
                out.push(Mismatch {
                    rule: format!("ctx-missing-return:{}", c),
                    detail: format!("{}() must have returned {:?} but is still pending", c, pat),
                });
            }
        }
        out
    }

    /// abstract state key (for reporting distinct states; never used to prune)
    pub fn state_key(&self) -> u64 {
        if self.ops.len() > 64 {
            return 0;
        }
        let mut s = String::new();
        for o in &self.ops {
            s.push_str(&format!(
                "{:?}{}{}{};",
                std::mem::discriminant(&o.st),
                o.alive,
                o.held,
                match &o.spec {
                    OpSpec::Publish(p) => p.qos() as usize,
                    OpSpec::Subscribe(_) => 3,
                    OpSpec::Unsubscribe(_) => 4,
                    OpSpec::Ping => 5,
                    OpSpec::Disconnect(_) => 6,
                }
            ));
        }
        s.push_str(&format!(
            "|{:?}|q{}|r{}|{:?}|",
            self.ctx, self.quota_used, self.r, self.unreleased
        ));
        for x in &self.subs {
            s.push_str(&format!(
                "{}{}{}{:?};",
                x.receiver_alive,
                x.sender_alive,
                x.buffered.len(),
                x.stream
            ));
        }
        for x in &self.streams {
            s.push_str(&format!("{}{}{};", x.alive, x.held, x.ended));
        }
        pvcore::explore::hash_str(&s)
    }
}
